#![feature(allocator_api)]
use vstd::prelude::*;
verus! {

// ---- assumed std specs
pub uninterp spec fn iter_seq<T, I>(i: I) -> Seq<T>;

pub assume_specification<T: Clone> [<[T]>::to_vec] (s: &[T]) -> (r: Vec<T>)
    ensures r@ == s@;

pub assume_specification<T, A: std::alloc::Allocator, I: std::iter::IntoIterator<Item = T>> [<Vec<T, A> as std::iter::Extend<T>>::extend] (v: &mut Vec<T, A>, i: I)
    ensures final(v)@ == old(v)@ + iter_seq::<T, I>(i);

pub assume_specification<'a, T: Copy + 'a, A: std::alloc::Allocator, I: std::iter::IntoIterator<Item = &'a T>> [<Vec<T, A> as std::iter::Extend<&'a T>>::extend] (v: &mut Vec<T, A>, i: I)
    ensures final(v)@ == old(v)@ + iter_seq::<T, I>(i);

pub broadcast axiom fn iter_seq_vec<T>(v: Vec<T>)
    ensures #[trigger] iter_seq::<T, Vec<T>>(v) == v@;
pub broadcast axiom fn iter_seq_arr4(v: [u8; 4])
    ensures #[trigger] iter_seq::<u8, [u8;4]>(v) == v@;
pub broadcast axiom fn iter_seq_refarr4<'a>(v: &'a [u8; 4])
    ensures #[trigger] iter_seq::<u8, &'a [u8;4]>(v) == v@;
pub broadcast axiom fn iter_seq_refvec<'a>(v: &'a Vec<u8>)
    ensures #[trigger] iter_seq::<u8, &'a Vec<u8>>(v) == v@;
pub broadcast axiom fn iter_seq_slice<'a>(v: &'a [u8])
    ensures #[trigger] iter_seq::<u8, &'a [u8]>(v) == v@;

pub uninterp spec fn le32(x: u32) -> Seq<u8>;
pub uninterp spec fn lei32(x: i32) -> Seq<u8>;

#[verifier::external_body]
pub fn u32_to_le_bytes(x: u32) -> (r: [u8; 4]) ensures r@ == le32(x) { x.to_le_bytes() }
#[verifier::external_body]
pub fn i32_to_le_bytes(x: i32) -> (r: [u8; 4]) ensures r@ == lei32(x) { x.to_le_bytes() }

pub enum Algorithm { Ed25519 = 0, Secp256r1 = 1 }

#[verifier::external_body]
pub struct Ed25519PublicKey { x: [u8;32] }
#[verifier::external_body]
pub struct P256PublicKey { x: Vec<u8> }

pub enum PublicKey {
    Ed25519(Ed25519PublicKey),
    P256(P256PublicKey),
}

pub struct Signature(pub Vec<u8>);

impl Signature {
    pub fn to_bytes(&self) -> (r: &[u8]) ensures r@ == self.0@ {
        &self.0[..]
    }
}

pub uninterp spec fn pk_bytes(k: PublicKey) -> Seq<u8>;

impl PublicKey {
    #[verifier::external_body]
    pub fn to_bytes(&self) -> (r: Vec<u8>) ensures r@ == pk_bytes(*self) { unimplemented!() }

    pub fn algorithm(&self) -> (r: Algorithm) 
      ensures r == (match self { PublicKey::Ed25519(_) => Algorithm::Ed25519, PublicKey::P256(_) => Algorithm::Secp256r1 })
    {
        match self {
            PublicKey::Ed25519(_) => Algorithm::Ed25519,
            PublicKey::P256(_) => Algorithm::Secp256r1,
        }
    }
}

pub struct ExternalSignature {
    pub public_key: PublicKey,
    pub signature: Signature,
}


pub open spec fn tag(s: Seq<u8>) -> Seq<u8> { s }
pub open spec fn alg_code(k: PublicKey) -> i32 { match k { PublicKey::Ed25519(_) => 0i32, PublicKey::P256(_) => 1i32 } }
pub open spec fn spec_block_payload_v1(payload: Seq<u8>, next_key: PublicKey, ext: Option<Seq<u8>>, prev: Seq<u8>, version: u32) -> Seq<u8> {
    let base = seq![0u8, 66, 76, 79, 67, 75, 0, 0, 86, 69, 82, 83, 73, 79, 78, 0] + le32(version)
      + seq![0u8, 80, 65, 89, 76, 79, 65, 68, 0] + payload
      + seq![0u8, 65, 76, 71, 79, 82, 73, 84, 72, 77, 0] + lei32(alg_code(next_key))
      + seq![0u8, 78, 69, 88, 84, 75, 69, 89, 0] + pk_bytes(next_key)
      + seq![0u8, 80, 82, 69, 86, 83, 73, 71, 0] + prev;
    match ext {
        None => base,
        Some(e) => base + seq![0u8, 69, 88, 84, 69, 82, 78, 65, 76, 83, 73, 71, 0] + e,
    }
}

pub fn generate_block_signature_payload_v1(
    payload: &[u8],
    next_key: &PublicKey,
    external_signature: Option<&ExternalSignature>,
    previous_signature: &Signature,
    version: u32,
) -> (r: Vec<u8>) 
    ensures r@ == spec_block_payload_v1(payload@, *next_key, match external_signature { None => None, Some(e) => Some(e.signature.0@) }, previous_signature.0@, version)
{
    broadcast use iter_seq_vec, iter_seq_arr4, iter_seq_refarr4, iter_seq_refvec, iter_seq_slice;
    let mut to_verify = [0u8, 66, 76, 79, 67, 75, 0, 0, 86, 69, 82, 83, 73, 79, 78, 0].to_vec();
    to_verify.extend(u32_to_le_bytes(version));

    to_verify.extend([0u8, 80, 65, 89, 76, 79, 65, 68, 0].to_vec());
    to_verify.extend(payload.to_vec());

    to_verify.extend([0u8, 65, 76, 71, 79, 82, 73, 84, 72, 77, 0].to_vec());
    to_verify.extend(&i32_to_le_bytes(next_key.algorithm() as i32));

    to_verify.extend([0u8, 78, 69, 88, 84, 75, 69, 89, 0].to_vec());
    to_verify.extend(&next_key.to_bytes());

    to_verify.extend([0u8, 80, 82, 69, 86, 83, 73, 71, 0].to_vec());
    to_verify.extend(previous_signature.to_bytes());

    if let Some(signature) = external_signature.as_ref() {
        to_verify.extend([0u8, 69, 88, 84, 69, 82, 78, 65, 76, 83, 73, 71, 0].to_vec());
        to_verify.extend_from_slice(&signature.signature.to_bytes());
    }

    to_verify
}

} // verus!
fn main() {}
