use vstd::prelude::*;
verus! {
pub enum Fmt { A(u32), B }
pub enum Tok { Format(Fmt), Other }
pub struct Ex { pub k: u64 }
pub struct B { pub ext: Option<Ex>, pub v: u32 }

#[verifier::external_body]
fn conv(b: &B, k: Option<u64>) -> Result<u32, Fmt> { unimplemented!() }

pub struct T { pub blocks: Vec<B>, pub cblocks: Vec<B>, pub auth: B }

impl T {
  pub fn block(&self, index: usize) -> Result<u32, Tok>
     requires self.blocks.len() == self.cblocks.len()
  {
    let block = if index == 0 {
        conv(&self.auth, self.auth.ext.as_ref().map(|ex| ex.k)).map_err(|e| Tok::Format(e))?
    } else {
        if index > self.blocks.len() + 1 {
            return Err(Tok::Format(Fmt::B));
        }
        conv(&self.blocks[index - 1], self.cblocks[index - 1].ext.as_ref().map(|ex| ex.k)).map_err(|e| Tok::Format(e))?
    };
    Ok(block)
  }
  pub fn last(&self) -> &B {
    self.blocks.last().unwrap_or(&self.auth)
  }
  pub fn ver(&self, v: Option<u32>) -> u32 { v.unwrap_or_default() }
}
}
fn main(){}
