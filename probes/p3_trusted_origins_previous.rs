#![feature(allocator_api)]
use vstd::prelude::*;
use std::collections::BTreeSet;
use std::collections::HashMap;
verus! {

pub uninterp spec fn iter_set<T, I>(i: I) -> Set<T>;

pub assume_specification<T: Ord, A: std::alloc::Allocator + Clone> [BTreeSet::<T, A>::is_superset] (s: &BTreeSet<T, A>, o: &BTreeSet<T, A>) -> (r: bool)
    ensures r == o@.subset_of(s@);

pub assume_specification<T: Ord, A: std::alloc::Allocator + Clone, I: IntoIterator<Item = T>> [<BTreeSet<T, A> as Extend<T>>::extend] (s: &mut BTreeSet<T, A>, i: I)
    ensures final(s)@ == old(s)@.union(iter_set::<T, I>(i));

pub assume_specification<'a, T: 'a + Ord + Copy, A: std::alloc::Allocator + Clone, I: IntoIterator<Item = &'a T>> [<BTreeSet<T, A> as Extend<&'a T>>::extend] (s: &mut BTreeSet<T, A>, i: I)
    ensures final(s)@ == old(s)@.union(iter_set::<T, I>(i));

pub broadcast axiom fn iter_set_range(r: std::ops::Range<usize>, x: usize)
    ensures #[trigger] iter_set::<usize, std::ops::Range<usize>>(r).contains(x) <==> (r.start <= x < r.end);
pub enum Scope { Authority, Previous, PublicKey(u64) }

pub struct Origin { pub inner: BTreeSet<usize> }

impl Origin {
    pub fn insert(&mut self, i: usize) 
       ensures final(self).inner@ == old(self).inner@.insert(i)
    {
        self.inner.insert(i);
    }
    pub fn is_superset(&self, other: &Self) -> (r: bool) 
       ensures r == other.inner@.subset_of(self.inner@)
    {
        self.inner.is_superset(&other.inner)
    }
}


pub fn from_prev(current_block: usize) -> (r: Origin)
    ensures forall|x: usize| r.inner@.contains(x) <==> (x == usize::MAX || (current_block != usize::MAX && x <= current_block)),
{
    broadcast use iter_set_range;
    let mut origins = Origin { inner: BTreeSet::new() };
    origins.insert(usize::MAX);
    origins.insert(current_block);
    if current_block != usize::MAX {
        origins.inner.extend(0..current_block + 1)
    }
    origins
}
}
fn main(){}
