use vstd::prelude::*;
verus! {
pub struct PublicKey { pub id: u64 }
impl vstd::std_specs::cmp::PartialEqSpecImpl for PublicKey {
    open spec fn obeys_eq_spec() -> bool { true }
    open spec fn eq_spec(&self, other: &PublicKey) -> bool { *self == *other }
}
impl PartialEq for PublicKey {
    #[verifier::external_body]
    fn eq(&self, other: &PublicKey) -> bool { self.id == other.id }
}
pub struct PrivateKey { pub id: u64 }
pub struct Signature(pub Vec<u8>);
pub struct ExternalSignature { pub public_key: PublicKey, pub signature: Signature }
pub struct Block { pub data: Vec<u8>, pub next_key: PublicKey, pub signature: Signature, pub external_signature: Option<ExternalSignature>, pub version: u32 }
pub enum TokenNext { Secret(PrivateKey), Seal(Signature) }
pub struct SerializedBiscuit { pub root_key_id: Option<u32>, pub authority: Block, pub blocks: Vec<Block>, pub proof: TokenNext }
#[derive(Clone, Copy, PartialEq)]
pub enum ThirdPartyVerificationMode { UnsafeLegacy, PreviousSignatureHashing }
pub enum SigErr { InvalidSignature(String) }
pub enum Format { Signature(SigErr), Other }

pub uninterp spec fn auth_ok(b: Block, k: PublicKey) -> bool;
pub uninterp spec fn block_ok(b: Block, k: PublicKey, prev: Signature, legacy: bool) -> bool;
pub uninterp spec fn seal_ok(b: Block, k: PublicKey, s: Signature) -> bool;
pub uninterp spec fn pub_of(p: PrivateKey) -> PublicKey;
pub uninterp spec fn seal_payload(b: Block) -> Seq<u8>;
pub uninterp spec fn sig_ok(k: PublicKey, m: Seq<u8>, s: Signature) -> bool;

#[verifier::external_body]
pub fn verify_authority_block_signature(block: &Block, public_key: &PublicKey) -> (r: Result<(), Format>)
    ensures r.is_ok() ==> auth_ok(*block, *public_key) { unimplemented!() }
#[verifier::external_body]
pub fn verify_block_signature(block: &Block, public_key: &PublicKey, previous_signature: &Signature, verification_mode: ThirdPartyVerificationMode) -> (r: Result<(), Format>)
    ensures r.is_ok() ==> block_ok(*block, *public_key, *previous_signature, verification_mode == ThirdPartyVerificationMode::UnsafeLegacy) { unimplemented!() }
#[verifier::external_body]
pub fn generate_seal_signature_payload_v0(block: &Block) -> (r: Vec<u8>) ensures r@ == seal_payload(*block) { unimplemented!() }
#[verifier::external_body]
pub fn verif_str() -> String { unimplemented!() }

impl PrivateKey {
    #[verifier::external_body]
    pub fn public(&self) -> (r: PublicKey) ensures r == pub_of(*self) { unimplemented!() }
}
impl PublicKey {
    #[verifier::external_body]
    pub fn verify_signature(&self, data: &[u8], signature: &Signature) -> (r: Result<(), Format>)
        ensures r.is_ok() ==> sig_ok(*self, data@, *signature) { unimplemented!() }
    #[verifier::external_body]
    pub fn ne(&self, o: &PublicKey) -> (r: bool) ensures r == (*self != *o) { unimplemented!() }
}

pub open spec fn key_before(t: SerializedBiscuit, i: int) -> PublicKey { if i == 0 { t.authority.next_key } else { t.blocks@[i-1].next_key } }
pub open spec fn sig_before(t: SerializedBiscuit, i: int) -> Signature { if i == 0 { t.authority.signature } else { t.blocks@[i-1].signature } }
pub open spec fn last_block(t: SerializedBiscuit) -> Block { if t.blocks@.len() == 0 { t.authority } else { t.blocks@[t.blocks@.len() - 1] } }
pub open spec fn chain_valid(t: SerializedBiscuit, root: PublicKey, legacy_mode: bool) -> bool {
    &&& auth_ok(t.authority, root)
    &&& forall|i: int| 0 <= i < t.blocks@.len() ==> block_ok(#[trigger] t.blocks@[i], key_before(t, i), sig_before(t, i), legacy_mode && t.blocks@[i].version == 0)
    &&& match t.proof {
        TokenNext::Secret(p) => pub_of(p) == last_block(t).next_key,
        TokenNext::Seal(s) => sig_ok(last_block(t).next_key, seal_payload(last_block(t)), s),
    }
}

impl SerializedBiscuit {
    pub(crate) fn verify_inner(
        &self,
        root: &PublicKey,
        verification_mode: ThirdPartyVerificationMode,
    ) -> (r: Result<(), Format>)
        ensures r.is_ok() ==> chain_valid(*self, *root, verification_mode == ThirdPartyVerificationMode::UnsafeLegacy)
    {
        //FIXME: try batched signature verification
        let mut current_pub = root;
        let mut previous_signature;

        verify_authority_block_signature(&self.authority, current_pub)?;
        current_pub = &self.authority.next_key;
        previous_signature = &self.authority.signature;

        for block in it: &self.blocks
            invariant
                *current_pub == key_before(*self, it.index@ as int),
                *previous_signature == sig_before(*self, it.index@ as int),
                forall|i: int| 0 <= i < it.index@ ==> block_ok(#[trigger] self.blocks@[i], key_before(*self, i), sig_before(*self, i), verification_mode == ThirdPartyVerificationMode::UnsafeLegacy && self.blocks@[i].version == 0),
        {
            let verification_mode = match (block.version, verification_mode) {
                (0, ThirdPartyVerificationMode::UnsafeLegacy) => {
                    ThirdPartyVerificationMode::UnsafeLegacy
                }
                _ => ThirdPartyVerificationMode::PreviousSignatureHashing,
            };

            verify_block_signature(
                block,
                current_pub,
                previous_signature,
                verification_mode,
            )?;
            current_pub = &block.next_key;
            previous_signature = &block.signature;
        }

        match &self.proof {
            TokenNext::Secret(private) => {
                if current_pub != &private.public() {
                    return Err(Format::Signature(
                        SigErr::InvalidSignature(
                            verif_str(),
                        ),
                    ));
                }
            }
            TokenNext::Seal(signature) => {
                //FIXME: replace with SHA512 hashing
                let block = if self.blocks.is_empty() {
                    &self.authority
                } else {
                    &self.blocks[self.blocks.len() - 1]
                };

                let to_verify = generate_seal_signature_payload_v0(block);

                current_pub.verify_signature(&to_verify, &signature)?;
            }
        }

        proof {
            assert(auth_ok(self.authority, *root));
            assert(forall|i: int| 0 <= i < self.blocks@.len() ==> block_ok(#[trigger] self.blocks@[i], key_before(*self, i), sig_before(*self, i), verification_mode == ThirdPartyVerificationMode::UnsafeLegacy && self.blocks@[i].version == 0));
            assert(*current_pub == last_block(*self).next_key);
            assert(match self.proof {
                TokenNext::Secret(p) => pub_of(p) == last_block(*self).next_key,
                TokenNext::Seal(s) => sig_ok(last_block(*self).next_key, seal_payload(last_block(*self)), s),
            });
        }
        Ok(())
    }
}
}
fn main(){}
