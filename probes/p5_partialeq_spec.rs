use vstd::prelude::*;
verus! {
pub struct PublicKey { pub id: u64 }

impl vstd::std_specs::cmp::PartialEqSpecImpl for PublicKey {
    open spec fn obeys_eq_spec() -> bool { true }
    open spec fn eq_spec(&self, other: &PublicKey) -> bool { *self == *other }
}
impl PartialEq for PublicKey {
    #[verifier::external_body]
    fn eq(&self, other: &PublicKey) -> bool { self.id == other.id }
}

fn t(a: &PublicKey, b: &PublicKey) {
    if a != b { assert(*a != *b); } else { assert(*a == *b); }
}
}
fn main(){}
