//! Concrete witness search / replay on the REAL crate (path dependency on /repo/biscuit-auth).
//! usage: verif-replay <case> ; prints `WITNESS: <text>` when the real code misbehaves, `NO-WITNESS` otherwise.
use biscuit_auth::builder::*;
use biscuit_auth::*;
use std::panic::{catch_unwind, AssertUnwindSafe};

fn quiet<T>(f: impl FnOnce() -> T) -> Result<T, String> {
    let prev = std::panic::take_hook();
    std::panic::set_hook(Box::new(|_| {}));
    let r = catch_unwind(AssertUnwindSafe(f)).map_err(|e| {
        if let Some(s) = e.downcast_ref::<String>() { s.clone() }
        else if let Some(s) = e.downcast_ref::<&str>() { s.to_string() }
        else { "panic".to_string() }
    });
    std::panic::set_hook(prev);
    r
}

fn token_with_blocks(n: usize) -> (KeyPair, Biscuit) {
    let root = KeyPair::new();
    let mut t = Biscuit::builder().fact("right(\"file1\", \"read\")").unwrap().build(&root).unwrap();
    for i in 0..n {
        t = t.append(BlockBuilder::new().fact(format!("extra({})", i).as_str()).unwrap()).unwrap();
    }
    (root, t)
}

/// F1: block accessors with index == block_count()
fn block_index() -> Option<String> {
    for n in 0..3 {
        let (_root, t) = token_with_blocks(n);
        for index in 0..(t.block_count() + 3) {
            if let Err(p) = quiet(|| { let _ = t.print_block_source(index); }) {
                return Some(format!("Biscuit::print_block_source(index={}) on a token with block_count()={} panics: {}", index, t.block_count(), p));
            }
            if let Err(p) = quiet(|| { let _ = t.block_version(index); }) {
                return Some(format!("Biscuit::block_version(index={}) with block_count()={} panics: {}", index, t.block_count(), p));
            }
        }
        let u = UnverifiedBiscuit::from(t.to_vec().unwrap()).unwrap();
        for index in 0..(u.block_count() + 3) {
            if let Err(p) = quiet(|| { let _ = u.print_block_source(index); }) {
                return Some(format!("UnverifiedBiscuit::print_block_source(index={}) with block_count()={} panics: {}", index, u.block_count(), p));
            }
        }
    }
    None
}

/// F2: UnverifiedBiscuit::append_third_party with a payload the converter refuses
fn unverified_third_party_unwrap() -> Option<String> {
    use prost::Message;
    let (_root, t) = token_with_blocks(0);
    let u = UnverifiedBiscuit::from(t.to_vec().unwrap()).unwrap();
    let ext = KeyPair::new();
    let req = u.third_party_request().unwrap();
    let good = req.create_block(&ext.private(), BlockBuilder::new().fact("tp(1)").unwrap()).unwrap();
    let bytes = good.serialize().unwrap();
    // decode ThirdPartyBlockContents { payload, external_signature }, patch the payload's version to 99
    let mut contents = biscuit_auth::format::schema::ThirdPartyBlockContents::decode(&bytes[..]).unwrap();
    let mut blk = biscuit_auth::format::schema::Block::decode(&contents.payload[..]).unwrap();
    blk.version = Some(99);
    let mut payload = Vec::new();
    blk.encode(&mut payload).unwrap();
    contents.payload = payload;
    let mut out = Vec::new();
    contents.encode(&mut out).unwrap();
    match quiet(|| u.append_third_party(&out).map(|_| ())) {
        Err(p) => Some(format!("UnverifiedBiscuit::append_third_party(block with version 99) panics: {}", p)),
        Ok(_) => None,
    }
}

/// F3: third-party block public keys leak into the token table on the unverified path
fn unverified_third_party_tables() -> Option<String> {
    let (root, t) = token_with_blocks(0);
    let ext = KeyPair::new();
    let other = KeyPair::new();
    let u = UnverifiedBiscuit::from(t.to_vec().unwrap()).unwrap();
    let req = u.third_party_request().unwrap();
    let rule = format!("check if tp(1) trusting {}", other.public());
    let tp = req.create_block(&ext.private(), BlockBuilder::new().fact("tp(1)").unwrap().check(rule.as_str()).unwrap()).unwrap();
    let u2 = u.append_third_party(&tp.serialize().unwrap()).unwrap();
    // a later first-party block that refers to the same key
    let rule2 = format!("check if x(1) trusting {}", other.public());
    let u3 = u2.append(BlockBuilder::new().check(rule2.as_str()).unwrap()).unwrap();
    let in_memory = quiet(|| u3.print_block_source(2));
    let bytes = u3.to_vec().unwrap();
    let reloaded = match Biscuit::from(&bytes, root.public()) {
        Ok(b) => b,
        Err(e) => return Some(format!("token built through UnverifiedBiscuit::append_third_party + append does not reload: {:?}", e)),
    };
    let after = quiet(|| reloaded.print_block_source(2));
    if format!("{:?}", in_memory) != format!("{:?}", after) {
        return Some(format!("block 2 prints {:?} in memory but {:?} after a round trip", in_memory, after));
    }
    None
}

/// F4: blocks using 3.3 features must declare version 6 (DATALOG_3_3)
fn schema_version_features() -> Option<String> {
    let cases: Vec<(&str, &str)> = vec![
        ("array literal in a fact", "f([1, 2, 3])"),
        ("map literal in a fact", "f({\"a\": 1})"),
        ("null nested in an array", "f([null])"),
        ("array literal in a check", "check if [1, 2].contains(1)"),
        (".get() in a check", "check if g($x), $x.get(0) < 2"),
        ("null in a fact (control: detected)", "f(null)"),
    ];
    let mut bad = vec![];
    for (name, src) in cases {
        let root = KeyPair::new();
        let b = if src.starts_with("check") { Biscuit::builder().check(src) } else { Biscuit::builder().fact(src) };
        let b = match b { Ok(b) => b, Err(e) => { bad.push(format!("{}: builder refused {:?}", name, e)); continue } };
        let t = match b.build(&root) { Ok(t) => t, Err(e) => { bad.push(format!("{}: build failed {:?}", name, e)); continue } };
        let v = t.block_version(0).unwrap();
        if v < 6 { bad.push(format!("{} ({}) is declared version {}", name, src, v)); }
    }
    if bad.is_empty() { None } else { Some(bad.join("; ")) }
}

/// re-sign, under a fresh root key, the authority block of `t` with its declared version forced to `v`
/// (v0 signature layout: payload ++ le32(alg) ++ next key bytes); returns (root public key, token bytes)
fn redeclare_authority_version(t: &Biscuit, v: u32) -> (PublicKey, Vec<u8>) {
    use prost::Message;
    use biscuit_auth::format::schema;
    let bytes = t.to_vec().unwrap();
    let tok = schema::Biscuit::decode(&bytes[..]).unwrap();
    let mut blk = schema::Block::decode(&tok.authority.block[..]).unwrap();
    blk.version = Some(v);
    let mut payload = Vec::new();
    blk.encode(&mut payload).unwrap();
    let root = KeyPair::new();
    let next = KeyPair::new();
    let mut to_sign = payload.clone();
    to_sign.extend(&(0i32).to_le_bytes());
    to_sign.extend(next.public().to_bytes());
    let sig = root.sign(&to_sign).unwrap();
    let forged = schema::Biscuit {
        root_key_id: None,
        authority: schema::SignedBlock {
            block: payload,
            next_key: next.public().to_proto(),
            signature: sig.to_bytes().to_vec(),
            external_signature: None,
            version: None,
        },
        blocks: vec![],
        proof: schema::Proof { content: Some(schema::proof::Content::NextSecret(next.private().to_bytes().to_vec())) },
    };
    let mut out = Vec::new();
    forged.encode(&mut out).unwrap();
    (root.public(), out)
}

/// C16, second half: a block whose declared version is lower than a feature it contains must be refused
fn underdeclared_block_accepted() -> Option<String> {
    let cases: Vec<(&str, &str, u32)> = vec![
        ("null term declared 3.0", "f(null)", 3),
        ("null term declared 3.1 (control)", "f(null)", 4),
        ("array declared 3.0", "f([1, 2])", 3),
        ("array declared 3.2", "f([1, 2])", 5),
        ("map declared 3.0", "f({\"a\": 1})", 3),
    ];
    let mut bad = vec![];
    for (name, src, v) in cases {
        let root = KeyPair::new();
        let t = Biscuit::builder().fact(src).unwrap().build(&root).unwrap();
        let (pk, bytes) = redeclare_authority_version(&t, v);
        match Biscuit::from(&bytes, pk) {
            Ok(tok) => {
                // "rejected before it can be evaluated": building an authorizer must fail
                if tok.authorizer().is_ok() {
                    bad.push(format!("{}: a block containing `{}` declared version {} is loaded into an authorizer (block_version = {:?})", name, src, v, tok.block_version(0)));
                }
            }
            Err(_) => {}
        }
    }
    if bad.is_empty() { None } else { Some(bad.join("; ")) }
}

/// C10: an iteration budget of 0 must not let evaluation run on
fn iterations_zero_budget() -> Option<String> {
    use std::time::Duration;
    let root = KeyPair::new();
    let t = Biscuit::builder()
        .fact("e(1, 2)").unwrap().fact("e(2, 3)").unwrap().fact("e(3, 4)").unwrap().fact("e(4, 5)").unwrap().fact("e(5, 6)").unwrap()
        .rule("p($a, $b) <- e($a, $b)").unwrap()
        .rule("p($a, $c) <- p($a, $b), e($b, $c)").unwrap()
        .build(&root).unwrap();
    for budget in [0u64, 1, 2] {
        let mut a = AuthorizerBuilder::new()
            .limits(AuthorizerLimits { max_facts: 1000, max_iterations: budget, max_time: Duration::from_secs(5) })
            .policy("allow if true").unwrap()
            .build(&t).unwrap();
        match quiet(|| a.authorize().is_ok()) {
            Err(p) => return Some(format!("max_iterations={}: authorize() panics after {} iterations: {}", budget, a.iterations(), p)),
            Ok(ok) => if ok && a.iterations() > budget {
                return Some(format!("max_iterations={} but authorize() succeeded after {} iterations", budget, a.iterations()));
            }
        }
    }
    None
}

/// C10: on success the authorizer never reports more facts than its budget
fn facts_over_budget_at_start() -> Option<String> {
    use std::time::Duration;
    let root = KeyPair::new();
    let t = Biscuit::builder()
        .fact("f(1)").unwrap().fact("f(2)").unwrap().fact("f(3)").unwrap().fact("f(4)").unwrap().fact("f(5)").unwrap()
        .build(&root).unwrap();
    let mut a = AuthorizerBuilder::new()
        .limits(AuthorizerLimits { max_facts: 2, max_iterations: 100, max_time: Duration::from_secs(5) })
        .policy("allow if true").unwrap()
        .build(&t).unwrap();
    let r = a.authorize();
    if r.is_ok() && a.fact_count() > 2 {
        return Some(format!("max_facts=2 but authorize() succeeded with fact_count()={}", a.fact_count()));
    }
    None
}

/// C09/C10: an authorizer restored from a snapshot whose iteration counter exceeds its budget
fn snapshot_iteration_underflow() -> Option<String> {
    use prost::Message;
    use biscuit_auth::format::schema;
    let root = KeyPair::new();
    let t = Biscuit::builder().fact("f(1)").unwrap().build(&root).unwrap();
    let mut a = AuthorizerBuilder::new().policy("allow if true").unwrap().build(&t).unwrap();
    a.authorize().unwrap();
    let raw = a.to_raw_snapshot().unwrap();
    let mut snap = schema::AuthorizerSnapshot::decode(&raw[..]).unwrap();
    snap.world.iterations = snap.limits.max_iterations + 1;
    snap.execution_time = 1;
    let mut out = Vec::new();
    snap.encode(&mut out).unwrap();
    let mut restored = match Authorizer::from_raw_snapshot(&out) { Ok(r) => r, Err(_) => return None };
    match quiet(|| restored.authorize().map(|_| ())) {
        Err(p) => Some(format!("Authorizer::from_raw_snapshot(iterations = max_iterations + 1).authorize() panics: {}", p)),
        Ok(_) => None,
    }
}

/// C09: an authorizer restored from a snapshot that has not run yet (execution_time 0) and whose
/// iteration counter is close to u64::MAX: World::run_with_limits adds the rounds to the counter
fn snapshot_iteration_overflow() -> Option<String> {
    use prost::Message;
    use biscuit_auth::format::schema;
    let root = KeyPair::new();
    let t = Biscuit::builder().fact("f(1)").unwrap().rule("g($x) <- f($x)").unwrap().build(&root).unwrap();
    let a = AuthorizerBuilder::new().policy("allow if true").unwrap().build(&t).unwrap();
    let raw = a.to_raw_snapshot().unwrap();
    let mut snap = schema::AuthorizerSnapshot::decode(&raw[..]).unwrap();
    snap.world.iterations = u64::MAX;
    snap.limits.max_iterations = u64::MAX;
    snap.execution_time = 0;
    let mut out = Vec::new();
    snap.encode(&mut out).unwrap();
    let mut restored = match Authorizer::from_raw_snapshot(&out) { Ok(r) => r, Err(_) => return None };
    match quiet(|| restored.authorize().map(|_| ())) {
        Err(p) => Some(format!("Authorizer::from_raw_snapshot(iterations = u64::MAX, execution_time = 0).authorize() panics: {}", p)),
        Ok(_) => None,
    }
}

/// C06: a closure parameter that shadows a variable bound by the rule body must be rejected
fn closure_shadowing() -> Option<String> {
    let root = KeyPair::new();
    let t = Biscuit::builder().fact("x(1)").unwrap().build(&root).unwrap();
    let mut a = AuthorizerBuilder::new()
        .check("check if x($p), [2].all($p -> $p == 2)").unwrap()
        .policy("allow if true").unwrap()
        .build(&t).unwrap();
    let r = quiet(|| a.authorize().map(|_| ()));
    match r {
        Ok(Err(e)) if format!("{:?}", e).contains("ShadowedVariable") => None,
        Ok(other) => Some(format!("check if x($p), [2].all($p -> $p == 2): the closure parameter shadows $p but authorize() returned {:?} instead of ShadowedVariable", other)),
        Err(p) => Some(format!("closure shadowing: panic {}", p)),
    }
}

/// C09: dumping an authorizer built from a token whose check carries a malformed operation sequence
fn dump_malformed_expression() -> Option<String> {
    use biscuit_auth::builder::{Binary, Check, CheckKind, Expression, Op, Predicate, Rule, Term};
    let root = KeyPair::new();
    let rule = Rule::new(
        Predicate::new("query".to_string(), Vec::<Term>::new()),
        vec![Predicate::new("f".to_string(), vec![Term::Integer(1)])],
        vec![Expression { ops: vec![Op::Binary(Binary::Add)] }],   // a binary operator with no operands
        vec![],
    );
    let check = Check { queries: vec![rule], kind: CheckKind::One };
    let t = match Biscuit::builder().fact("f(1)").unwrap().check(check) { Ok(b) => b.build(&root).unwrap(), Err(_) => return None };
    let bytes = t.to_vec().unwrap();
    let t2 = match Biscuit::from(&bytes, root.public()) { Ok(t) => t, Err(_) => return None };
    let mut a = match AuthorizerBuilder::new().policy("allow if true").unwrap().build(&t2) { Ok(a) => a, Err(_) => return None };
    let _ = quiet(|| a.authorize().map(|_| ()));
    match quiet(|| a.dump_code()) {
        Err(p) => Some(format!("token with the expression [Binary(Add)]: Biscuit::from is Ok, AuthorizerBuilder::build is Ok, Authorizer::dump_code() panics: {}", p)),
        Ok(_) => None,
    }
}

/// C09: Datalog source with a public key of the wrong length
fn datalog_source_short_key() -> Option<String> {
    let mut found = vec![];
    for src in ["check if true trusting ed25519/aabb", "check if true trusting secp256r1/00", "check if f($x) trusting ed25519/"] {
        match quiet(|| Biscuit::builder().check(src).map(|_| ())) {
            Err(p) => found.push(format!("BiscuitBuilder::check({:?}) panics: {}", src, p)),
            Ok(_) => {}
        }
    }
    match quiet(|| AuthorizerBuilder::new().code("allow if true trusting ed25519/aabb").map(|_| ())) {
        Err(p) => found.push(format!("AuthorizerBuilder::code(\"allow if true trusting ed25519/aabb\") panics: {}", p)),
        Ok(_) => {}
    }
    if found.is_empty() { None } else { Some(found.join("; ")) }
}

/// C09 / C20: Datalog source with an unbound parameter nested in a collection
fn nested_unbound_parameter() -> Option<String> {
    let root = KeyPair::new();
    let mut found = vec![];
    for src in ["f([{p}])", "f({{p}})", "f({\"a\": {p}})", "f({{k}: 1})", "f([[{p}]])"] {
        match quiet(|| Biscuit::builder().fact(src).map(|b| b.build(&root).map(|_| ()))) {
            Err(p) => found.push(format!("fact({:?}) then build panics: {}", src, p)),
            Ok(_) => {}
        }
    }
    for src in ["check if f($x), $x == [{p}]", "check if f($x), [1].any($y -> $y == {p})", "check if f({p})", "check if true trusting {k}"] {
        match quiet(|| Biscuit::builder().check(src).map(|b| b.build(&root).map(|_| ()))) {
            Err(p) => found.push(format!("check({:?}) then build panics: {}", src, p)),
            Ok(_) => {}
        }
    }
    if found.is_empty() { None } else { Some(found.join("; ")) }
}

/// C09: an authorizer restored from a snapshot whose generated facts name a symbol that is not in the table
fn snapshot_unknown_symbol_dump() -> Option<String> {
    use prost::Message;
    use biscuit_auth::format::schema;
    let root = KeyPair::new();
    let t = Biscuit::builder().fact("f(1)").unwrap().rule("g($x) <- f($x)").unwrap().build(&root).unwrap();
    let mut a = AuthorizerBuilder::new().policy("allow if true").unwrap().build(&t).unwrap();
    a.authorize().unwrap();
    let raw = a.to_raw_snapshot().unwrap();
    let mut snap = schema::AuthorizerSnapshot::decode(&raw[..]).unwrap();
    if snap.world.generated_facts.is_empty() || snap.world.generated_facts[0].facts.is_empty() { return None; }
    snap.world.generated_facts[0].facts[0].predicate.name = 999_999;      // no such symbol
    let mut out = Vec::new();
    snap.encode(&mut out).unwrap();
    let restored = match Authorizer::from_raw_snapshot(&out) { Ok(r) => r, Err(_) => return None };
    let mut found = vec![];
    match quiet(|| restored.dump_code()) { Err(p) => found.push(format!("dump_code() panics: {}", p)), Ok(_) => {} }
    match quiet(|| restored.dump()) { Err(p) => found.push(format!("dump() panics: {}", p)), Ok(_) => {} }
    match quiet(|| restored.print_world()) { Err(p) => found.push(format!("print_world() panics: {}", p)), Ok(_) => {} }
    match quiet(|| restored.to_raw_snapshot().map(|_| ())) { Err(p) => found.push(format!("to_raw_snapshot() panics: {}", p)), Ok(_) => {} }
    if found.is_empty() { None } else { Some(format!("Authorizer::from_raw_snapshot(generated fact with symbol id 999999) is Ok, then {}", found.join("; "))) }
}

/// C12: a third-party block naming a key prints the same source through the verified and the unverified API
fn unverified_third_party_print() -> Option<String> {
    use biscuit_auth::builder::BlockBuilder;
    let root = KeyPair::new();
    let k1 = KeyPair::new();
    let k2 = KeyPair::new();
    let ext = KeyPair::new();
    let t = Biscuit::builder().fact("f(1)").unwrap().build(&root).unwrap();
    // first-party block naming K1: the token key table is [K1]
    let t = t.append(BlockBuilder::new().check(format!("check if f(1) trusting {}", k1.public()).as_str()).unwrap()).unwrap();
    // third-party block naming K2 in its own key table
    let req = t.third_party_request().unwrap();
    let blk = req.create_block(&ext.private(), BlockBuilder::new().check(format!("check if f(1) trusting {}", k2.public()).as_str()).unwrap()).unwrap();
    let t = t.append_third_party(ext.public(), blk).unwrap();
    let bytes = t.to_vec().unwrap();
    let verified = Biscuit::from(&bytes, root.public()).unwrap();
    let unverified = UnverifiedBiscuit::from(&bytes).unwrap();
    let a = verified.print_block_source(2).unwrap();
    let b = unverified.print_block_source(2).unwrap();
    if a != b { Some(format!("block 2 (third party) prints {:?} through Biscuit and {:?} through UnverifiedBiscuit", a.trim(), b.trim())) } else { None }
}

/// C09: querying a date out of a token fact whose value does not fit a SystemTime
fn query_date_overflow() -> Option<String> {
    use std::time::SystemTime;
    let root = KeyPair::new();
    let t = Biscuit::builder().fact(biscuit_auth::builder::Fact::new("expires".to_string(), vec![biscuit_auth::builder::Term::Date(u64::MAX)])).unwrap().build(&root).unwrap();
    let bytes = t.to_vec().unwrap();
    let t2 = Biscuit::from(&bytes, root.public()).unwrap();
    let mut a = AuthorizerBuilder::new().policy("allow if true").unwrap().build(&t2).unwrap();
    match quiet(|| { let r: Result<Vec<(SystemTime,)>, _> = a.query("data($d) <- expires($d)"); r.map(|v| v.len()) }) {
        Err(p) => Some(format!("token fact expires(Date(u64::MAX)): authorizer.query::<_, (SystemTime,)>(..) panics: {}", p)),
        Ok(_) => None,
    }
}

/// C15: ECDSA / secp256r1 signatures come in pairs (r, s) / (r, n - s) that p256's `verify` both accepts; a block whose
/// signature nothing else covers (the last block of an unsealed token) can be presented under a second revocation identifier
fn p256_signature_twin() -> Option<String> {
    use biscuit_auth::builder::Algorithm;
    use biscuit_auth::format::schema;
    use prost::Message;
    let root = KeyPair::new_with_algorithm(Algorithm::Secp256r1);
    let t = Biscuit::builder().fact("user(\"alice\")").unwrap().build(&root).unwrap();
    let bytes = t.to_vec().unwrap();
    let mut proto = schema::Biscuit::decode(&bytes[..]).ok()?;
    let sig = p256::ecdsa::Signature::from_der(&proto.authority.signature).ok()?;
    let (r, s) = sig.split_scalars();
    let twin = p256::ecdsa::Signature::from_scalars(*r, -*s).ok()?;
    proto.authority.signature = twin.to_der().as_bytes().to_vec();
    let variant = proto.encode_to_vec();
    if variant == bytes { return None; }
    let t2 = match Biscuit::from(&variant, root.public()) { Ok(t) => t, Err(_) => return None };
    let (a, b) = (t.revocation_identifiers(), t2.revocation_identifiers());
    if t.print_block_source(0).ok()? == t2.print_block_source(0).ok()? && a != b {
        let hex = |v: &Vec<u8>| v.iter().map(|x| format!("{:02x}", x)).collect::<String>();
        Some(format!("token with a secp256r1 root key, authority signature (r, s) replaced by (r, n - s): Biscuit::from accepts the variant, same block, revocation identifier {}.. instead of {}..", &hex(&b[0])[..24], &hex(&a[0])[..24]))
    } else { None }
}

/// run `case` in a child process; report how it ended (a panic inside an extern "C" function aborts the process)
fn in_child(case: &str) -> Result<String, String> {
    let exe = std::env::current_exe().unwrap();
    let out = std::process::Command::new(exe).arg("--child").arg(case).output().unwrap();
    let stdout = String::from_utf8_lossy(&out.stdout).to_string();
    if out.status.success() { Ok(stdout) } else {
        let err = String::from_utf8_lossy(&out.stderr);
        let first = err.lines().find(|l| l.contains("panicked") || l.contains("abort")).unwrap_or("").to_string();
        let msg = err.lines().skip_while(|l| !l.contains("panicked")).nth(1).unwrap_or("").to_string();
        Err(format!("process ended with {:?}: {} {}", out.status, first.trim(), msg.trim()))
    }
}

fn capi_child(case: &str) {
    use biscuit_capi as c;
    unsafe {
        match case {
            "capi_public_key_serialize_secp256r1" => {
                let seed = [7u8; 32];
                let kp = c::key_pair_new(seed.as_ptr(), 32, c::SignatureAlgorithm::Secp256r1).unwrap();
                let pk = c::key_pair_public(Some(&kp)).unwrap();
                let mut buf = [0u8; 32];   // "expects a 32 byte buffer"
                let n = c::public_key_serialize(Some(&pk), buf.as_mut_ptr());
                println!("wrote {}", n);
            }
            "capi_public_key_serialize_ed25519" => {
                let seed = [7u8; 32];
                let kp = c::key_pair_new(seed.as_ptr(), 32, c::SignatureAlgorithm::Ed25519).unwrap();
                let pk = c::key_pair_public(Some(&kp)).unwrap();
                let mut buf = [0u8; 32];
                let n = c::public_key_serialize(Some(&pk), buf.as_mut_ptr());
                println!("wrote {}", n);
            }
            "capi_serialize_sealed" => {
                let seed = [7u8; 32];
                let kp = c::key_pair_new(seed.as_ptr(), 32, c::SignatureAlgorithm::Ed25519).unwrap();
                let mut b = c::biscuit_builder().unwrap();
                let fact = std::ffi::CString::new("right(\"file1\", \"read\")").unwrap();
                c::biscuit_builder_add_fact(Some(&mut b), fact.as_ptr());
                let t = c::biscuit_builder_build(Some(&b), Some(&kp), seed.as_ptr(), 32).unwrap();
                let size = c::biscuit_sealed_size(Some(&t));
                let mut buf = vec![0u8; size];   // a buffer of the size the API reports
                let n = c::biscuit_serialize_sealed(Some(&t), buf.as_mut_ptr());
                println!("announced {} wrote {}", size, n);
            }
            "capi_builder_after_error" => {
                // a refused fact (parse error) must leave the builder usable
                let mut b = c::biscuit_builder().unwrap();
                let bad = std::ffi::CString::new("this is not datalog(").unwrap();
                let ok1 = c::biscuit_builder_add_fact(Some(&mut b), bad.as_ptr());
                println!("add_fact(invalid) -> {}", ok1);
                let good = std::ffi::CString::new("right(\"file1\", \"read\")").unwrap();
                let ok2 = c::biscuit_builder_add_fact(Some(&mut b), good.as_ptr());
                println!("add_fact(valid) -> {}", ok2);
            }
            "deep_nesting_source" => {
                // Datalog source with deeply nested collections / parentheses
                let depth: usize = std::env::var("VERIF_DEPTH").ok().and_then(|d| d.parse().ok()).unwrap_or(100_000);
                let kind = std::env::var("VERIF_KIND").unwrap_or_else(|_| "array".to_string());
                let src = match kind.as_str() {
                    "array" => format!("f({}1{})", "[".repeat(depth), "]".repeat(depth)),
                    "parens" => format!("check if {}true{}", "(".repeat(depth), ")".repeat(depth)),
                    "not" => format!("check if {}true", "!".repeat(depth)),
                    _ => format!("check if {}1 > 0", "1 + ".repeat(depth)),
                };
                let r = biscuit_auth::Biscuit::builder().code(&src).map(|_| ());
                println!("parsed: {}", r.is_ok());
            }
            "capi_authorizer_builder_build_null" => {
                // a NULL builder must come back through the error channel
                let r = c::authorizer_builder_build_unauthenticated(None);
                println!("authorizer_builder_build_unauthenticated(NULL) -> {}", if r.is_none() { "NULL" } else { "handle" });
            }
            "capi_authorizer_builder_after_error" => {
                let mut b = c::authorizer_builder().unwrap();
                let bad = std::ffi::CString::new("allow if").unwrap();
                let ok1 = c::authorizer_builder_add_policy(Some(&mut b), bad.as_ptr());
                println!("add_policy(invalid) -> {}", ok1);
                let good = std::ffi::CString::new("allow if true").unwrap();
                let ok2 = c::authorizer_builder_add_policy(Some(&mut b), good.as_ptr());
                println!("add_policy(valid) -> {}", ok2);
            }
            _ => std::process::exit(2),
        }
    }
}

fn capi_case(case: &str) -> Option<String> {
    match in_child(case) {
        Err(e) => Some(format!("{}: {}", case, e)),
        Ok(out) => {
            // "writes exactly the number of bytes it announces"
            if let Some(rest) = out.trim().strip_prefix("announced ") {
                let v: Vec<&str> = rest.split(" wrote ").collect();
                if v.len() == 2 && v[0] != v[1] { return Some(format!("{}: announced {} bytes but wrote {}", case, v[0], v[1])); }
            }
            None
        }
    }
}

/// C04: `reject if` passes only when NONE of its alternatives matches
fn reject_if_alternatives() -> Option<String> {
    let root = KeyPair::new();
    let mut bad = vec![];
    // a(1) is present, b(1) is not: the first alternative matches, so the check must fail
    for (name, src) in [("authority check", "reject if a($x) or b($x)"), ("authority check, other order", "reject if b($x) or a($x)")] {
        let t = Biscuit::builder().fact("a(1)").unwrap().check(src).unwrap().build(&root).unwrap();
        let mut az = AuthorizerBuilder::new().policy("allow if true").unwrap().build(&t).unwrap();
        if az.authorize().is_ok() { bad.push(format!("{}: `{}` with a(1) present is accepted", name, src)); }
    }
    let t = Biscuit::builder().fact("a(1)").unwrap().build(&root).unwrap();
    let mut az = AuthorizerBuilder::new().check("reject if a($x) or b($x)").unwrap().policy("allow if true").unwrap().build(&t).unwrap();
    if az.authorize().is_ok() { bad.push("authorizer check `reject if a($x) or b($x)` with a(1) present is accepted".to_string()); }
    let t2 = t.append(BlockBuilder::new().check("reject if b($x) or a($x)").unwrap()).unwrap();
    let mut az = AuthorizerBuilder::new().policy("allow if true").unwrap().build(&t2).unwrap();
    if az.authorize().is_ok() { bad.push("block 1 check `reject if b($x) or a($x)` with a(1) in the authority block is accepted".to_string()); }
    // control: single alternative
    let t3 = Biscuit::builder().fact("a(1)").unwrap().check("reject if a($x)").unwrap().build(&root).unwrap();
    let mut az = AuthorizerBuilder::new().policy("allow if true").unwrap().build(&t3).unwrap();
    if az.authorize().is_ok() { bad.push("control `reject if a($x)` accepted".to_string()); }
    if bad.is_empty() { None } else { Some(bad.join("; ")) }
}

fn main() {
    if std::env::args().nth(1).as_deref() == Some("--child") {
        capi_child(&std::env::args().nth(2).unwrap());
        return;
    }
    let case = std::env::args().nth(1).unwrap_or_default();
    let w = match case.as_str() {
        "block_index" => block_index(),
        "unverified_third_party_unwrap" => unverified_third_party_unwrap(),
        "unverified_third_party_tables" => unverified_third_party_tables(),
        "schema_version_features" => schema_version_features(),
        "underdeclared_block_accepted" => underdeclared_block_accepted(),
        "iterations_zero_budget" => iterations_zero_budget(),
        "reject_if_alternatives" => reject_if_alternatives(),
        "capi_public_key_serialize_secp256r1" | "capi_public_key_serialize_ed25519" | "capi_serialize_sealed" | "capi_builder_after_error" | "capi_authorizer_builder_build_null" | "capi_authorizer_builder_after_error" => capi_case(&case),
        "snapshot_iteration_underflow" => snapshot_iteration_underflow(),
        "snapshot_iteration_overflow" => snapshot_iteration_overflow(),
        "closure_shadowing" => closure_shadowing(),
        "query_date_overflow" => query_date_overflow(),
        "unverified_third_party_print" => unverified_third_party_print(),
        "snapshot_unknown_symbol_dump" => snapshot_unknown_symbol_dump(),
        "nested_unbound_parameter" => nested_unbound_parameter(),
        "datalog_source_short_key" => datalog_source_short_key(),
        "dump_malformed_expression" => dump_malformed_expression(),
        "facts_over_budget_at_start" => facts_over_budget_at_start(),
        "p256_signature_twin" => p256_signature_twin(),
        _ => { eprintln!("unknown case {}", case); std::process::exit(2) }
    };
    match w {
        Some(s) => println!("WITNESS: {}", s),
        None => println!("NO-WITNESS"),
    }
}
