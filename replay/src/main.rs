//! Concrete witness search / replay on the REAL crate (path dependency on /repo/biscuit-auth).
//! usage: verif-replay <case> ; prints `WITNESS: <text>` when the real code misbehaves, `NO-WITNESS` otherwise.
use biscuit_auth::builder::*;
use biscuit_auth::*;
use std::panic::{catch_unwind, AssertUnwindSafe};

fn quiet<T>(f: impl FnOnce() -> T) -> Result<T, String> {
    let prev = std::panic::take_hook();
    std::panic::set_hook(Box::new(|_| {}));
    let r = catch_unwind(AssertUnwindSafe(f)).map_err(|e| {
        if let Some(s) = e.downcast_ref::<String>() { s.clone() }
        else if let Some(s) = e.downcast_ref::<&str>() { s.to_string() }
        else { "panic".to_string() }
    });
    std::panic::set_hook(prev);
    r
}

fn token_with_blocks(n: usize) -> (KeyPair, Biscuit) {
    let root = KeyPair::new();
    let mut t = Biscuit::builder().fact("right(\"file1\", \"read\")").unwrap().build(&root).unwrap();
    for i in 0..n {
        t = t.append(BlockBuilder::new().fact(format!("extra({})", i).as_str()).unwrap()).unwrap();
    }
    (root, t)
}

/// F1: block accessors with index == block_count()
fn block_index() -> Option<String> {
    for n in 0..3 {
        let (_root, t) = token_with_blocks(n);
        for index in 0..(t.block_count() + 3) {
            if let Err(p) = quiet(|| { let _ = t.print_block_source(index); }) {
                return Some(format!("Biscuit::print_block_source(index={}) on a token with block_count()={} panics: {}", index, t.block_count(), p));
            }
            if let Err(p) = quiet(|| { let _ = t.block_version(index); }) {
                return Some(format!("Biscuit::block_version(index={}) with block_count()={} panics: {}", index, t.block_count(), p));
            }
        }
        let u = UnverifiedBiscuit::from(t.to_vec().unwrap()).unwrap();
        for index in 0..(u.block_count() + 3) {
            if let Err(p) = quiet(|| { let _ = u.print_block_source(index); }) {
                return Some(format!("UnverifiedBiscuit::print_block_source(index={}) with block_count()={} panics: {}", index, u.block_count(), p));
            }
        }
    }
    None
}

/// F2: UnverifiedBiscuit::append_third_party with a payload the converter refuses
fn unverified_third_party_unwrap() -> Option<String> {
    use prost::Message;
    let (_root, t) = token_with_blocks(0);
    let u = UnverifiedBiscuit::from(t.to_vec().unwrap()).unwrap();
    let ext = KeyPair::new();
    let req = u.third_party_request().unwrap();
    let good = req.create_block(&ext.private(), BlockBuilder::new().fact("tp(1)").unwrap()).unwrap();
    let bytes = good.serialize().unwrap();
    // decode ThirdPartyBlockContents { payload, external_signature }, patch the payload's version to 99
    let mut contents = biscuit_auth::format::schema::ThirdPartyBlockContents::decode(&bytes[..]).unwrap();
    let mut blk = biscuit_auth::format::schema::Block::decode(&contents.payload[..]).unwrap();
    blk.version = Some(99);
    let mut payload = Vec::new();
    blk.encode(&mut payload).unwrap();
    contents.payload = payload;
    let mut out = Vec::new();
    contents.encode(&mut out).unwrap();
    match quiet(|| u.append_third_party(&out).map(|_| ())) {
        Err(p) => Some(format!("UnverifiedBiscuit::append_third_party(block with version 99) panics: {}", p)),
        Ok(_) => None,
    }
}

/// F3: third-party block public keys leak into the token table on the unverified path
fn unverified_third_party_tables() -> Option<String> {
    let (root, t) = token_with_blocks(0);
    let ext = KeyPair::new();
    let other = KeyPair::new();
    let u = UnverifiedBiscuit::from(t.to_vec().unwrap()).unwrap();
    let req = u.third_party_request().unwrap();
    let rule = format!("check if tp(1) trusting {}", other.public());
    let tp = req.create_block(&ext.private(), BlockBuilder::new().fact("tp(1)").unwrap().check(rule.as_str()).unwrap()).unwrap();
    let u2 = u.append_third_party(&tp.serialize().unwrap()).unwrap();
    // a later first-party block that refers to the same key
    let rule2 = format!("check if x(1) trusting {}", other.public());
    let u3 = u2.append(BlockBuilder::new().check(rule2.as_str()).unwrap()).unwrap();
    let in_memory = quiet(|| u3.print_block_source(2));
    let bytes = u3.to_vec().unwrap();
    let reloaded = match Biscuit::from(&bytes, root.public()) {
        Ok(b) => b,
        Err(e) => return Some(format!("token built through UnverifiedBiscuit::append_third_party + append does not reload: {:?}", e)),
    };
    let after = quiet(|| reloaded.print_block_source(2));
    if format!("{:?}", in_memory) != format!("{:?}", after) {
        return Some(format!("block 2 prints {:?} in memory but {:?} after a round trip", in_memory, after));
    }
    None
}

fn main() {
    let case = std::env::args().nth(1).unwrap_or_default();
    let w = match case.as_str() {
        "block_index" => block_index(),
        "unverified_third_party_unwrap" => unverified_third_party_unwrap(),
        "unverified_third_party_tables" => unverified_third_party_tables(),
        _ => { eprintln!("unknown case {}", case); std::process::exit(2) }
    };
    match w {
        Some(s) => println!("WITNESS: {}", s),
        None => println!("NO-WITNESS"),
    }
}
