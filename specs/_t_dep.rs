#![feature(allocator_api)]
#![allow(unused)]
use vstd::prelude::*;
verus! {
//@include std_prelude.rs
//@include dep_crypto.rs
//@include error_mod.rs
}
fn main(){}
