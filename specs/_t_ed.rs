#![feature(allocator_api)]
#![allow(unused)]
use vstd::prelude::*;
verus! {
//@include std_prelude.rs
//@include dep_crypto.rs
//@include error_mod.rs
pub mod format { pub mod schema {
        use vstd::prelude::*;
        //@extract biscuit-auth/src/format/schema.rs :: struct PublicKey
        //@end
        pub mod public_key {
            use vstd::prelude::*;
            //@extract biscuit-auth/src/format/schema.rs :: mod public_key :: enum Algorithm
            //@end
        }
} 
 pub enum ThirdPartyVerificationMode { UnsafeLegacy, PreviousSignatureHashing }
 pub struct SerializedBiscuit { pub root_key_id: Option<u32>, pub authority: crate::crypto::Block, pub blocks: Vec<crate::crypto::Block>, pub proof: crate::crypto::TokenNext }
}
pub mod builder {
    use vstd::prelude::*;
    //@extract biscuit-auth/src/token/builder/algorithm.rs :: enum Algorithm
    //@end
}
//@include chain_spec.rs
pub mod format2 {}
//@include chain_crypto.rs
}
fn main(){}
