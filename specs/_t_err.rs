#![feature(allocator_api)]
#![allow(unused)]
use vstd::prelude::*;
verus! {
//@include std_prelude.rs
//@include error_mod.rs
}
fn main(){}
