// =======================================================================================
// Unit `authz` — token/authorizer.rs::authorize_inner (C04): composition of checks and policies.
// The engine (World::query_match / query_match_all) and the builder -> Datalog conversions are ORACLES
// (uninterpreted functions); the proof is about every possible oracle outcome. Trusted-origin sets come
// from unit `origin` (contracts only).
// =======================================================================================
#![feature(allocator_api)]
#![allow(unused)]
use vstd::prelude::*;
verus! {
//@include std_prelude.rs
//@include error_mod.rs
//@include time_stub.rs
//@include-contracts origin_body.rs
//@include authz_body.rs
} // verus!
fn main() {}
