pub mod datalog2 {
    use vstd::prelude::*;
    use crate::token::Scope;
    use crate::datalog::origin::TrustedOrigins;
    use crate::error::Execution;
    use crate::builder::CheckKind;
    // stand-ins: a Datalog rule is opaque except for its scopes; the world and the symbol table are opaque
    pub struct Rule { pub scopes: Vec<Scope>, pub verif_rest: u64 }
    impl Clone for Rule { #[verifier::external_body] fn clone(&self) -> (r: Self) ensures r == *self { unimplemented!() } }
    //@extract biscuit-auth/src/datalog/mod.rs :: struct Check
    //@end
    #[verifier::external_body] pub struct World { _p: u8 }
    #[verifier::external_body] pub struct SymbolTable { _p: u8 }
    // ORACLES: what the engine answers for a query evaluated from `origin` under the trusted set `scope`
    pub uninterp spec fn m_one(w: World, q: Rule, origin: usize, scope: Set<usize>) -> Result<bool, Execution>;
    pub uninterp spec fn m_all(w: World, q: Rule, scope: Set<usize>) -> Result<bool, Execution>;
    #[verifier::external_body] pub struct FactSet { _p: u8 }
    // ORACLE: the facts a query rule derives from `origin` under the trusted set `scope`
    pub uninterp spec fn q_rule(w: World, q: Rule, origin: usize, scope: Set<usize>) -> Result<FactSet, Execution>;
    impl World {
        #[verifier::external_body]
        pub fn query_rule(&self, rule: Rule, origin: usize, scope: &TrustedOrigins, symbols: &SymbolTable) -> (r: Result<FactSet, Execution>)
            ensures r == q_rule(*self, rule, origin, scope.0.inner@)
        { unimplemented!() }
        #[verifier::external_body]
        pub fn query_match(&self, rule: Rule, origin: usize, scope: &TrustedOrigins, symbols: &SymbolTable) -> (r: Result<bool, Execution>)
            ensures r == m_one(*self, rule, origin, scope.0.inner@)
        { unimplemented!() }
        #[verifier::external_body]
        pub fn query_match_all(&self, rule: Rule, scope: &TrustedOrigins, symbols: &SymbolTable) -> (r: Result<bool, Execution>)
            ensures r == m_all(*self, rule, scope.0.inner@)
        { unimplemented!() }
    }
    impl SymbolTable {
        #[verifier::external_body]
        pub fn print_check(&self, c: &Check) -> String { unimplemented!() }
    }
}
pub mod builder {
    use vstd::prelude::*;
    use crate::datalog2;
    //@extract biscuit-auth/src/token/builder/check.rs :: enum CheckKind
    //@end
    //@extract biscuit-auth/src/token/builder/policy.rs :: enum PolicyKind
    //@end
    //@extract biscuit-auth/src/token/builder/check.rs :: struct Check
    //@end
    //@extract biscuit-auth/src/token/builder/policy.rs :: struct Policy
    //@end
    //@extract biscuit-auth/src/token/builder/block.rs :: struct BlockBuilder
    //@end
    // stand-ins (opaque) for the builder-level facts, rules and scopes
    #[verifier::external_body] pub struct Fact { _p: u8 }
    #[verifier::external_body] pub struct Rule { _p: u8 }
    #[verifier::external_body] pub struct Scope { _p: u8 }
    // ORACLES: builder -> Datalog conversion (interning in the symbol table is not modelled: the Datalog object is a
    // function of the builder object)
    pub uninterp spec fn conv_rule(r: Rule) -> datalog2::Rule;
    pub uninterp spec fn conv_scope(s: Scope) -> crate::token::Scope;
    pub uninterp spec fn conv_check(c: Check) -> datalog2::Check;
    pub broadcast axiom fn ax_conv_check(c: Check)
        ensures (#[trigger] conv_check(c)).kind == c.kind, conv_check(c).queries@.len() == c.queries@.len(),
                forall|i: int| #![trigger c.queries@[i]] #![trigger conv_check(c).queries@[i]] 0 <= i < c.queries@.len() ==> conv_check(c).queries@[i] == conv_rule(c.queries@[i]);
    // rule A5 (statement as oracle): the iterator chains that turn the derived facts into the caller's type
    pub uninterp spec fn collect_spec<T>(f: datalog2::FactSet, s: datalog2::SymbolTable) -> Result<Vec<T>, crate::error::Token>;
    pub uninterp spec fn collect_all_spec<T>(f: datalog2::FactSet, s: datalog2::SymbolTable) -> Result<Vec<T>, crate::error::Token>;
    #[verifier::external_body]
    pub fn verif_collect_facts<T>(res: datalog2::FactSet, symbols: &datalog2::SymbolTable) -> (r: Result<Vec<T>, crate::error::Token>)
        ensures r == collect_spec::<T>(res, *symbols) { unimplemented!() }
    #[verifier::external_body]
    pub fn verif_collect_all<T>(res: datalog2::FactSet, symbols: &datalog2::SymbolTable) -> (r: Result<Vec<T>, crate::error::Token>)
        ensures r == collect_all_spec::<T>(res, *symbols) { unimplemented!() }
    impl Rule {
        #[verifier::external_body]
        pub fn convert(&self, symbols: &mut datalog2::SymbolTable) -> (r: datalog2::Rule) ensures r == conv_rule(*self) { unimplemented!() }
    }
    impl Check {
        #[verifier::external_body]
        pub fn convert(&self, symbols: &mut datalog2::SymbolTable) -> (r: datalog2::Check) ensures r == conv_check(*self) { unimplemented!() }
    }
    // `scopes.clone().iter().map(|s| s.convert(&mut symbols)).collect()`
    #[verifier::external_body]
    pub fn verif_convert_scopes(scopes: &Vec<Scope>, symbols: &mut datalog2::SymbolTable) -> (r: Vec<crate::token::Scope>)
        ensures r@.len() == scopes@.len(), forall|i: int| 0 <= i < scopes@.len() ==> r@[i] == conv_scope(#[trigger] scopes@[i])
    { unimplemented!() }
    // ASSUMED: derived PartialEq / Clone of the field-less kinds
    impl Clone for CheckKind { #[verifier::external_body] fn clone(&self) -> (r: Self) ensures r == *self { unimplemented!() } }
    impl vstd::std_specs::cmp::PartialEqSpecImpl for CheckKind {
        open spec fn obeys_eq_spec() -> bool { true }
        open spec fn eq_spec(&self, other: &Self) -> bool { *self == *other }
    }
    impl PartialEq for CheckKind { #[verifier::external_body] fn eq(&self, other: &Self) -> bool { unimplemented!() } }
}
pub mod token2 {
    use vstd::prelude::*;
    // stand-in for token::Block: the two fields authorize_inner reads
    pub struct Block { pub checks: Vec<crate::datalog2::Check>, pub scopes: Vec<crate::token::Scope>, pub verif_rest: u64 }
}
pub mod authorizer {
    use vstd::prelude::*;
    use crate::verif_std::*;
    use crate::builder::{BlockBuilder, Check, Fact, Policy, PolicyKind, Rule, CheckKind};
    use crate::token2::Block;
    use crate::datalog2 as datalog;
    use crate::datalog::origin::{Origin, TrustedOrigins};
    use crate::error;
    use crate::time::Instant;
    use crate::time::Duration;
    use crate::token;
    use std::collections::HashMap;
    use crate::aspec::*;
    use crate::ospec::*;
    use crate::builder::{conv_rule, conv_check, conv_scope};
    broadcast use {crate::error::qm_axioms, crate::builder::ax_conv_check};
    pub struct RunLimits { pub max_facts: u64, pub max_iterations: u64, pub max_time: Duration }
    pub type AuthorizerLimits = RunLimits;

    //@extract biscuit-auth/src/token/authorizer.rs :: struct Authorizer
    //@end
    impl Authorizer {
        //@extract biscuit-auth/src/token/authorizer.rs :: impl Authorizer :: fn query_inner
        //@ sub res\s*\.inner\s*\.into_iter\(\)[\s\S]*?\.collect\(\) => crate::builder::verif_collect_facts::<T>(res, &self.symbols)
        //@ ensures frame: frame_eq(*final(self), *old(self))
        //@ ensures scope: r == (match crate::datalog2::q_rule(old(self).world, rule, usize::MAX, tset(rule.scopes@, default_trust(), usize::MAX, old(self).public_key_to_block_id@)) { Ok(fs) => crate::builder::collect_spec::<T>(fs, old(self).symbols), Err(e) => Err(exec_err(e)) })
        //@ ghost before "let res = self" :: proof { lemma_tset(rule_trusted_origins.0.inner@, rule.scopes@, default_trust(), usize::MAX, self.public_key_to_block_id@); }
        //@end
        //@extract biscuit-auth/src/token/authorizer.rs :: impl Authorizer :: fn query_all_inner
        //@ sub let r: HashSet<_> = res\.into_iter\(\)\.map\(\|\(_, fact\)\| fact\)\.collect\(\);\s*r\.into_iter\(\)[\s\S]*?\.collect::<Result<Vec<T>, _>>\(\) => crate::builder::verif_collect_all::<T>(res, &self.symbols)
        //@ ensures frame: frame_eq(*final(self), *old(self))
        //@ ensures scope: r == (match crate::datalog2::q_rule(old(self).world, rule, 0usize, (if rule.scopes@.len() == 0 { old(self).token_origins.0.inner@ } else { tset(rule.scopes@, default_trust(), usize::MAX, old(self).public_key_to_block_id@) })) { Ok(fs) => crate::builder::collect_all_spec::<T>(fs, old(self).symbols), Err(e) => Err(exec_err(e)) })
        //@ ghost before "let res = self" :: proof { if rule.scopes@.len() != 0 { lemma_tset(rule_trusted_origins.0.inner@, rule.scopes@, default_trust(), usize::MAX, self.public_key_to_block_id@); } }
        //@end
        //@extract biscuit-auth/src/token/authorizer.rs :: impl Authorizer :: fn authorize_inner
        //@ rewrites R19 R20
        //@ sub self\s*\.authorizer_block_builder\s*\.scopes\s*\.clone\(\)\s*\.iter\(\)\s*\.map\(\|s\| s\.convert\(&mut self\.symbols\)\)\s*\.collect\(\) => crate::builder::verif_convert_scopes(&self.authorizer_block_builder.scopes, &mut self.symbols)
        //@ attr #[verifier::loop_isolation(false)]
        //@ attr #[verifier::allow_complex_invariants]
        //@ requires time_sane: limits.max_time.nanos <= crate::time::MAX_NANOS / 2
        //@ requires blocks_nonempty: old(self).blocks is Some ==> old(self).blocks->Some_0@.len() >= 1
        //@ ensures frame: frame_eq(*final(self), *old(self))
        //@ ensures checks: r is Ok ==> all_checks_ok(*old(self))
        //@ ensures allow_first: r is Ok ==> first_policy(*old(self), r->Ok_0 as int) && old(self).policies@[r->Ok_0 as int].kind == PolicyKind::Allow
        //@ ensures no_policy: r is Err && r->Err_0 is FailedLogic && r->Err_0->FailedLogic_0 is NoMatchingPolicy ==> forall|j: int| 0 <= j < old(self).policies@.len() ==> !pol_matches(*old(self), j)
        //@ ensures unauthorized: r is Err && r->Err_0 is FailedLogic && r->Err_0->FailedLogic_0 is Unauthorized ==> (match r->Err_0->FailedLogic_0->Unauthorized_policy { error::MatchedPolicy::Allow(i) => first_policy(*old(self), i as int) && old(self).policies@[i as int].kind == PolicyKind::Allow, error::MatchedPolicy::Deny(i) => first_policy(*old(self), i as int) && old(self).policies@[i as int].kind == PolicyKind::Deny })
        //@ ghost body_start :: let ghost mut reads: int = 0; let ghost mut evals: int = 0;
        //@ ghost before_tail :: proof { assert(reads == evals); } proof { if errors@.len() == 0 { assert(authz_checks_ok(*old(self))); if old(self).blocks is Some { assert(authority_checks_ok(*old(self))); assert forall|b: int, j: int| 0 <= b < old(self).blocks->Some_0@.len() && 0 <= j < old(self).blocks->Some_0@[b].checks@.len() implies #[trigger] block_check_ok(*old(self), b, j) by { if b == 0 { assert(block_check_ok(*old(self), 0, j)); } } } } }
        //@ ghost before "let mut i = 0; while i < self.authorizer_block_builder.checks" :: proof { lemma_tset(authorizer_trusted_origins.0.inner@, authorizer_scopes@, default_trust(), usize::MAX, self.public_key_to_block_id@); assert(authorizer_scopes@ =~= conv_scopes(old(self).authorizer_block_builder.scopes@)); }
        //@ loop 0 invariant frame: frame_eq(*self, *old(self)) && i <= self.authorizer_block_builder.checks@.len()
        //@ loop 0 invariant sound: errors@.len() == 0 ==> forall|ii: int| 0 <= ii < i ==> #[trigger] authz_check_ok(*old(self), ii)
        //@ loop 0 decreases self.authorizer_block_builder.checks@.len() - i
        //@ loop 1 invariant frame: frame_eq(*self, *old(self)) && i < self.authorizer_block_builder.checks@.len() && verif_k0 <= check.queries@.len()
        //@ loop 1 invariant_except_break none: !(check.kind is Reject) ==> forall|k: int| 0 <= k < verif_k0 ==> !check_q(self.world, check.kind, conv_rule(#[trigger] check.queries@[k]), usize::MAX, authz_dflt(*old(self)), self.public_key_to_block_id@)
        //@ loop 1 invariant_except_break all_reject: check.kind is Reject ==> forall|k: int| 0 <= k < verif_k0 ==> check_q(self.world, check.kind, conv_rule(#[trigger] check.queries@[k]), usize::MAX, authz_dflt(*old(self)), self.public_key_to_block_id@)
        //@ loop 1 invariant_except_break flag: successful <==> (check.kind is Reject && verif_k0 > 0)
        //@ loop 1 ensures done: successful ==> authz_check_ok(*old(self), i as int)
        //@ loop 1 ensures failed: !successful ==> !authz_check_ok(*old(self), i as int)
        //@ loop 1 decreases check.queries@.len() - verif_k0
        //@ ghost before "let res = match check.kind {" #0 :: proof { assert(reads == evals); evals = evals + 1; } proof { lemma_tset(rule_trusted_origins.0.inner@, query.scopes@, authorizer_trusted_origins.0.inner@, usize::MAX, self.public_key_to_block_id@); }
        //@ loop 2 invariant frame: frame_eq(*self, *old(self)) && j <= blocks@[0].checks@.len()
        //@ loop 2 invariant sound: errors@.len() == 0 ==> forall|jj: int| 0 <= jj < j ==> #[trigger] block_check_ok(*old(self), 0, jj)
        //@ loop 2 invariant carry: errors@.len() == 0 ==> authz_checks_ok(*old(self))
        //@ loop 2 decreases blocks@[0].checks@.len() - j
        //@ loop 3 invariant frame: frame_eq(*self, *old(self)) && j < blocks@[0].checks@.len() && verif_k1 <= check.queries@.len()
        //@ loop 3 invariant_except_break none: !(check.kind is Reject) ==> forall|k: int| 0 <= k < verif_k1 ==> !check_q(self.world, check.kind, #[trigger] check.queries@[k], 0usize, block_dflt(*old(self), 0), self.public_key_to_block_id@)
        //@ loop 3 invariant_except_break all_reject: check.kind is Reject ==> forall|k: int| 0 <= k < verif_k1 ==> check_q(self.world, check.kind, #[trigger] check.queries@[k], 0usize, block_dflt(*old(self), 0), self.public_key_to_block_id@)
        //@ loop 3 invariant_except_break flag: successful <==> (check.kind is Reject && verif_k1 > 0)
        //@ loop 3 ensures done: successful ==> block_check_ok(*old(self), 0, j as int)
        //@ loop 3 ensures failed: !successful ==> !block_check_ok(*old(self), 0, j as int)
        //@ loop 3 invariant carry: errors@.len() == 0 ==> authz_checks_ok(*old(self))
        //@ loop 3 decreases check.queries@.len() - verif_k1
        //@ ghost before "let mut verif_k1 = 0;" :: proof { lemma_tset(authority_trusted_origins.0.inner@, blocks@[0].scopes@, default_trust(), 0usize, self.public_key_to_block_id@); }
        //@ ghost before "let res = match check.kind {" #1 :: proof { assert(reads == evals); evals = evals + 1; } proof { lemma_tset(rule_trusted_origins.0.inner@, query.scopes@, authority_trusted_origins.0.inner@, 0usize, self.public_key_to_block_id@); }
        //@ loop 4 invariant frame: frame_eq(*self, *old(self)) && i <= self.policies@.len()
        //@ loop 4 invariant_except_break none_before: policy_result is None && forall|jj: int| 0 <= jj < i ==> !pol_matches(*old(self), jj)
        //@ loop 4 ensures decided: frame_eq(*self, *old(self)) && (match policy_result { None => forall|jj: int| 0 <= jj < old(self).policies@.len() ==> !pol_matches(*old(self), jj), Some(Ok(p)) => first_policy(*old(self), p as int) && old(self).policies@[p as int].kind == PolicyKind::Allow, Some(Err(p)) => first_policy(*old(self), p as int) && old(self).policies@[p as int].kind == PolicyKind::Deny })
        //@ loop 4 decreases self.policies@.len() - i
        //@ loop 5 invariant frame: frame_eq(*self, *old(self)) && i < self.policies@.len() && verif_k2 <= policy.queries@.len()
        //@ loop 5 invariant_except_break none_so_far: policy_result is None && forall|k: int| 0 <= k < verif_k2 ==> !q_one(self.world, conv_rule(#[trigger] policy.queries@[k]), usize::MAX, authz_dflt(*old(self)), self.public_key_to_block_id@)
        //@ loop 5 decreases policy.queries@.len() - verif_k2
        //@ ghost before "let res = self.world.query_match(" :: proof { assert(reads == evals); evals = evals + 1; } proof { lemma_tset(rule_trusted_origins.0.inner@, query.scopes@, authorizer_trusted_origins.0.inner@, usize::MAX, self.public_key_to_block_id@); }
        //@ ghost before "break 'policies_test;" :: proof { assert(q_one(self.world, conv_rule(policy.queries@[verif_k2 as int]), usize::MAX, authz_dflt(*old(self)), self.public_key_to_block_id@)); assert(pol_matches(*old(self), i as int)); }
        //@ loop 6 invariant frame: frame_eq(*self, *old(self)) && i <= blocks@.len() - 1
        //@ loop 6 invariant sound: errors@.len() == 0 ==> forall|bb: int, jj: int| 1 <= bb < i + 1 && 0 <= jj < blocks@[bb].checks@.len() ==> #[trigger] block_check_ok(*old(self), bb, jj)
        //@ loop 6 invariant carry: errors@.len() == 0 ==> authz_checks_ok(*old(self)) && authority_checks_ok(*old(self))
        //@ ghost loop 6 start :: let ghost e0 = errors@.len();
        //@ loop 7 invariant mono: errors@.len() >= e0
        //@ ghost loop 6 end :: proof { if errors@.len() == 0 { assert forall|bb: int, jj: int| 1 <= bb < i + 1 && 0 <= jj < blocks@[bb].checks@.len() implies #[trigger] block_check_ok(*old(self), bb, jj) by { if bb == i { assert(block_check_ok(*old(self), i as int, jj)); } } } }
        //@ loop 6 decreases blocks@.len() - 1 - i
        //@ loop 7 invariant frame: frame_eq(*self, *old(self)) && j <= block.checks@.len() && i < blocks@.len() - 1 && *block == blocks@[i + 1]
        //@ loop 7 invariant sound: errors@.len() == 0 ==> forall|jj: int| 0 <= jj < j ==> #[trigger] block_check_ok(*old(self), i + 1, jj)
        //@ loop 7 invariant carry: errors@.len() == 0 ==> authz_checks_ok(*old(self)) && authority_checks_ok(*old(self))
        //@ loop 7 decreases block.checks@.len() - j
        //@ loop 8 invariant frame: frame_eq(*self, *old(self)) && j < block.checks@.len() && verif_k3 <= check.queries@.len()
        //@ loop 8 invariant_except_break none: !(check.kind is Reject) ==> forall|k: int| 0 <= k < verif_k3 ==> !check_q(self.world, check.kind, #[trigger] check.queries@[k], (i + 1) as usize, block_dflt(*old(self), i + 1), self.public_key_to_block_id@)
        //@ loop 8 invariant_except_break all_reject: check.kind is Reject ==> forall|k: int| 0 <= k < verif_k3 ==> check_q(self.world, check.kind, #[trigger] check.queries@[k], (i + 1) as usize, block_dflt(*old(self), i + 1), self.public_key_to_block_id@)
        //@ loop 8 invariant_except_break flag: successful <==> (check.kind is Reject && verif_k3 > 0)
        //@ loop 8 ensures done: successful ==> block_check_ok(*old(self), i + 1, j as int)
        //@ loop 8 ensures failed: !successful ==> !block_check_ok(*old(self), i + 1, j as int)
        //@ loop 8 invariant carry: errors@.len() == 0 ==> authz_checks_ok(*old(self)) && authority_checks_ok(*old(self))
        //@ loop 8 decreases check.queries@.len() - verif_k3
        //@ ghost before "let mut j = 0; while j < block.checks.len()" :: proof { lemma_tset(block_trusted_origins.0.inner@, blocks@[i + 1].scopes@, default_trust(), (i + 1) as usize, self.public_key_to_block_id@); }
        //@ ghost before "let res = match check.kind {" #2 :: proof { assert(reads == evals); evals = evals + 1; } proof { lemma_tset(rule_trusted_origins.0.inner@, query.scopes@, block_trusted_origins.0.inner@, (i + 1) as usize, self.public_key_to_block_id@); }
        //@ ghost before "if now >= time_limit {" #0 :: proof { assert(reads + 1 == evals); reads = reads + 1; }
        //@ ghost before "if now >= time_limit {" #1 :: proof { assert(reads + 1 == evals); reads = reads + 1; }
        //@ ghost before "if now >= time_limit {" #2 :: proof { assert(reads + 1 == evals); reads = reads + 1; }
        //@ ghost before "if now >= time_limit {" #3 :: proof { assert(reads + 1 == evals); reads = reads + 1; }
        //@ loop 0 invariant clock: reads == evals
        //@ loop 1 invariant clock: reads == evals
        //@ loop 2 invariant clock: reads == evals
        //@ loop 3 invariant clock: reads == evals
        //@ loop 4 invariant clock: reads == evals
        //@ loop 5 invariant clock: reads == evals
        //@ loop 6 invariant clock: reads == evals
        //@ loop 7 invariant clock: reads == evals
        //@ loop 8 invariant clock: reads == evals
        //@ ensures failed_list: r is Err && r->Err_0 is FailedLogic && (r->Err_0->FailedLogic_0 is Unauthorized || r->Err_0->FailedLogic_0 is NoMatchingPolicy) ==> failed_listed(*old(self), checks_of(r->Err_0))
        //@ loop 0 invariant listed: authz_listed(*old(self), errors@, i as int)
        //@ ghost before "if !successful {" #0 :: let ghost ev0 = errors@;
        //@ ghost loop 0 end :: proof { if !successful { assert(!authz_check_ok(*old(self), (i - 1) as int)); assert(!all_checks_ok(*old(self))); assert(errors@ =~= ev0.push(errors@[ev0.len() as int])); lemma_push_keeps(ev0, errors@[ev0.len() as int]); if i - 1 <= u32::MAX { assert(has_authz(errors@, (i - 1) as int)); } } }
        //@ loop 2 invariant listed: authz_listed(*old(self), errors@, old(self).authorizer_block_builder.checks@.len() as int) && block_listed(*old(self), errors@, 0, j as int)
        //@ ghost before "if !successful {" #1 :: let ghost ev1 = errors@;
        //@ ghost loop 2 end :: proof { if !successful { assert(!block_check_ok(*old(self), 0, (j - 1) as int)); assert(!all_checks_ok(*old(self))); assert(errors@ =~= ev1.push(errors@[ev1.len() as int])); lemma_push_keeps(ev1, errors@[ev1.len() as int]); if j - 1 <= u32::MAX { assert(has_block(errors@, 0, (j - 1) as int)); } } }
        //@ loop 4 invariant listed: authz_listed(*old(self), errors@, old(self).authorizer_block_builder.checks@.len() as int) && (old(self).blocks is Some ==> block_listed(*old(self), errors@, 0, old(self).blocks->Some_0@[0].checks@.len() as int))
        //@ loop 5 invariant listed: authz_listed(*old(self), errors@, old(self).authorizer_block_builder.checks@.len() as int) && (old(self).blocks is Some ==> block_listed(*old(self), errors@, 0, old(self).blocks->Some_0@[0].checks@.len() as int))
        //@ loop 6 invariant listed: authz_listed(*old(self), errors@, old(self).authorizer_block_builder.checks@.len() as int) && forall|b: int| 0 <= b < i + 1 ==> #[trigger] block_listed(*old(self), errors@, b, blocks@[b].checks@.len() as int)
        //@ loop 7 invariant listed: authz_listed(*old(self), errors@, old(self).authorizer_block_builder.checks@.len() as int) && (forall|b: int| 0 <= b < i + 1 ==> #[trigger] block_listed(*old(self), errors@, b, blocks@[b].checks@.len() as int)) && block_listed(*old(self), errors@, i + 1, j as int)
        //@ ghost before "if !successful {" #2 :: let ghost ev2 = errors@;
        //@ ghost loop 7 end :: proof { if !successful { assert(!block_check_ok(*old(self), i + 1, (j - 1) as int)); assert(!all_checks_ok(*old(self))); assert(errors@ =~= ev2.push(errors@[ev2.len() as int])); lemma_push_keeps(ev2, errors@[ev2.len() as int]); if j - 1 <= u32::MAX && i + 1 <= u32::MAX { assert(has_block(errors@, i + 1, (j - 1) as int)); } }  assert forall|b: int| 0 <= b < i + 1 implies #[trigger] block_listed(*old(self), errors@, b, blocks@[b].checks@.len() as int) by { assert(block_listed(*old(self), ev2, b, blocks@[b].checks@.len() as int)); assert forall|jj: int| 0 <= jj < blocks@[b].checks@.len() && jj <= u32::MAX && b <= u32::MAX && !(#[trigger] block_check_ok(*old(self), b, jj)) implies has_block(errors@, b, jj) by { assert(has_block(ev2, b, jj)); } } }
        //@ ensures refusal_justified: r is Err && r->Err_0 is FailedLogic && r->Err_0->FailedLogic_0 is Unauthorized && r->Err_0->FailedLogic_0->Unauthorized_policy is Allow ==> !all_checks_ok(*old(self))
        //@ loop 0 invariant justified: errors@.len() > 0 ==> !all_checks_ok(*old(self))
        //@ loop 1 invariant justified: errors@.len() > 0 ==> !all_checks_ok(*old(self))
        //@ loop 2 invariant justified: errors@.len() > 0 ==> !all_checks_ok(*old(self))
        //@ loop 3 invariant justified: errors@.len() > 0 ==> !all_checks_ok(*old(self))
        //@ loop 4 invariant justified: errors@.len() > 0 ==> !all_checks_ok(*old(self))
        //@ loop 5 invariant justified: errors@.len() > 0 ==> !all_checks_ok(*old(self))
        //@ loop 6 invariant justified: errors@.len() > 0 ==> !all_checks_ok(*old(self))
        //@ loop 7 invariant justified: errors@.len() > 0 ==> !all_checks_ok(*old(self))
        //@ loop 8 invariant justified: errors@.len() > 0 ==> !all_checks_ok(*old(self))
        //@end
    }
}
pub mod aspec {
    use vstd::prelude::*;
    use crate::datalog2::{World, Rule, m_one, m_all};
    use crate::builder::{CheckKind, PolicyKind, conv_rule, conv_check, conv_scope};
    use crate::ospec::{trusted_spec, default_trust};
    use crate::token::Scope;
    use crate::error::Execution;
    use crate::authorizer::Authorizer;

    // the trusted-origin set of the specification, as a set value (unit origin proves membership equivalence)
    pub open spec fn has_tset(s: Set<usize>, scopes: Seq<Scope>, dflt: Set<usize>, cur: usize, m: Map<usize, Vec<usize>>) -> bool {
        forall|x: usize| s.contains(x) <==> trusted_spec(scopes, dflt, cur, m, x)
    }
    pub open spec fn tset(scopes: Seq<Scope>, dflt: Set<usize>, cur: usize, m: Map<usize, Vec<usize>>) -> Set<usize> {
        choose|s: Set<usize>| has_tset(s, scopes, dflt, cur, m)
    }
    pub proof fn lemma_tset(s: Set<usize>, scopes: Seq<Scope>, dflt: Set<usize>, cur: usize, m: Map<usize, Vec<usize>>)
        requires has_tset(s, scopes, dflt, cur, m)
        ensures s == tset(scopes, dflt, cur, m)
    {
        let t = tset(scopes, dflt, cur, m);
        assert(has_tset(t, scopes, dflt, cur, m));
        assert(s =~= t);
    }
    // "query q, evaluated from `origin` with the block-level default `dflt`, matches (one) / matches (all)"
    pub open spec fn q_one(w: World, q: Rule, origin: usize, dflt: Set<usize>, m: Map<usize, Vec<usize>>) -> bool {
        m_one(w, q, origin, tset(q.scopes@, dflt, origin, m)) == Ok::<bool, Execution>(true)
    }
    pub open spec fn q_all(w: World, q: Rule, origin: usize, dflt: Set<usize>, m: Map<usize, Vec<usize>>) -> bool {
        m_all(w, q, tset(q.scopes@, dflt, origin, m)) == Ok::<bool, Execution>(true)
    }
    // THE per-kind success rule (Biscuit specification): `check if` needs one matching alternative, `check all` one
    // alternative that matches with no counter-example, `reject if` passes only when NONE of its alternatives matches
    pub open spec fn check_ok(w: World, kind: CheckKind, qs: Seq<Rule>, origin: usize, dflt: Set<usize>, m: Map<usize, Vec<usize>>) -> bool {
        match kind {
            CheckKind::One => exists|i: int| 0 <= i < qs.len() && q_one(w, #[trigger] qs[i], origin, dflt, m),
            CheckKind::All => exists|i: int| 0 <= i < qs.len() && q_all(w, #[trigger] qs[i], origin, dflt, m),
            CheckKind::Reject => qs.len() > 0 && forall|i: int| 0 <= i < qs.len() ==> !q_one(w, #[trigger] qs[i], origin, dflt, m),
        }
    }
    // one alternative, as the per-kind result `res` of the evaluation loop: a match (one), a match of all (all),
    // the ABSENCE of a match (reject)
    pub open spec fn check_q(w: World, kind: CheckKind, q: Rule, origin: usize, dflt: Set<usize>, m: Map<usize, Vec<usize>>) -> bool {
        match kind { CheckKind::One => q_one(w, q, origin, dflt, m), CheckKind::All => q_all(w, q, origin, dflt, m), CheckKind::Reject => !q_one(w, q, origin, dflt, m) }
    }
    pub open spec fn exec_err(e: Execution) -> crate::error::Token { match e { Execution::RunLimit(l) => crate::error::Token::RunLimit(l), Execution::Expression(x) => crate::error::Token::Execution(x) } }
    pub open spec fn conv_scopes(s: Seq<crate::builder::Scope>) -> Seq<Scope> { s.map_values(|x: crate::builder::Scope| conv_scope(x)) }
    pub open spec fn authz_dflt(a: Authorizer) -> Set<usize> {
        tset(conv_scopes(a.authorizer_block_builder.scopes@), default_trust(), usize::MAX, a.public_key_to_block_id@)
    }
    pub open spec fn block_dflt(a: Authorizer, b: int) -> Set<usize> {
        tset(a.blocks->Some_0@[b].scopes@, default_trust(), b as usize, a.public_key_to_block_id@)
    }
    pub open spec fn authz_check_ok(a: Authorizer, i: int) -> bool {
        check_ok(a.world, a.authorizer_block_builder.checks@[i].kind, conv_check(a.authorizer_block_builder.checks@[i]).queries@,
                 usize::MAX, authz_dflt(a), a.public_key_to_block_id@)
    }
    pub open spec fn block_check_ok(a: Authorizer, b: int, j: int) -> bool {
        check_ok(a.world, a.blocks->Some_0@[b].checks@[j].kind, a.blocks->Some_0@[b].checks@[j].queries@,
                 b as usize, block_dflt(a, b), a.public_key_to_block_id@)
    }
    pub open spec fn pol_matches(a: Authorizer, j: int) -> bool {
        exists|k: int| 0 <= k < a.policies@[j].queries@.len()
            && q_one(a.world, conv_rule(#[trigger] a.policies@[j].queries@[k]), usize::MAX, authz_dflt(a), a.public_key_to_block_id@)
    }
    // policies are tried in order: i is the first policy with a matching alternative
    pub open spec fn first_policy(a: Authorizer, i: int) -> bool {
        0 <= i < a.policies@.len() && pol_matches(a, i) && forall|j: int| 0 <= j < i ==> !pol_matches(a, j)
    }
    pub open spec fn all_checks_ok(a: Authorizer) -> bool {
        &&& forall|i: int| 0 <= i < a.authorizer_block_builder.checks@.len() ==> #[trigger] authz_check_ok(a, i)
        &&& a.blocks is Some ==> forall|b: int, j: int| 0 <= b < a.blocks->Some_0@.len() && 0 <= j < a.blocks->Some_0@[b].checks@.len() ==> #[trigger] block_check_ok(a, b, j)
    }
    pub open spec fn authz_checks_ok(a: Authorizer) -> bool {
        forall|i: int| 0 <= i < a.authorizer_block_builder.checks@.len() ==> #[trigger] authz_check_ok(a, i)
    }
    pub open spec fn authority_checks_ok(a: Authorizer) -> bool {
        forall|j: int| 0 <= j < a.blocks->Some_0@[0].checks@.len() ==> #[trigger] block_check_ok(a, 0, j)
    }
    // ---- the list of failed checks (C04: "the exact list of failed checks (origin and index)"): completeness ----
    pub open spec fn has_authz(errs: Seq<crate::error::FailedCheck>, ii: int) -> bool {
        exists|k: int| 0 <= k < errs.len() && (#[trigger] errs[k]) is Authorizer && errs[k]->Authorizer_0.check_id == ii as u32
    }
    pub open spec fn has_block(errs: Seq<crate::error::FailedCheck>, b: int, j: int) -> bool {
        exists|k: int| 0 <= k < errs.len() && (#[trigger] errs[k]) is Block && errs[k]->Block_0.block_id == b as u32 && errs[k]->Block_0.check_id == j as u32
    }
    pub open spec fn authz_listed(a: Authorizer, errs: Seq<crate::error::FailedCheck>, n: int) -> bool {
        forall|ii: int| 0 <= ii < n && ii <= u32::MAX && !(#[trigger] authz_check_ok(a, ii)) ==> has_authz(errs, ii)
    }
    pub open spec fn block_listed(a: Authorizer, errs: Seq<crate::error::FailedCheck>, b: int, n: int) -> bool {
        forall|jj: int| 0 <= jj < n && jj <= u32::MAX && b <= u32::MAX && !(#[trigger] block_check_ok(a, b, jj)) ==> has_block(errs, b, jj)
    }
    // every failing check of the authorizer, of the authority block and of every other block is in the list
    // (positions are reported as u32: stated for indices that fit, i.e. fewer than 2^32 checks / blocks)
    pub open spec fn failed_listed(a: Authorizer, errs: Seq<crate::error::FailedCheck>) -> bool {
        authz_listed(a, errs, a.authorizer_block_builder.checks@.len() as int)
        && (a.blocks is Some ==> forall|b: int| 0 <= b < a.blocks->Some_0@.len() ==> #[trigger] block_listed(a, errs, b, a.blocks->Some_0@[b].checks@.len() as int))
    }
    pub open spec fn checks_of(e: crate::error::Token) -> Seq<crate::error::FailedCheck> {
        match e {
            crate::error::Token::FailedLogic(crate::error::Logic::Unauthorized { policy, checks }) => checks@,
            crate::error::Token::FailedLogic(crate::error::Logic::NoMatchingPolicy { checks }) => checks@,
            _ => Seq::empty(),
        }
    }
    pub proof fn lemma_push_keeps(errs: Seq<crate::error::FailedCheck>, x: crate::error::FailedCheck)
        ensures forall|ii: int| has_authz(errs, ii) ==> #[trigger] has_authz(errs.push(x), ii),
                forall|b: int, j: int| has_block(errs, b, j) ==> #[trigger] has_block(errs.push(x), b, j),
                x is Authorizer ==> forall|ii: int| x->Authorizer_0.check_id == ii as u32 ==> #[trigger] has_authz(errs.push(x), ii),
                x is Block ==> forall|b: int, j: int| x->Block_0.block_id == b as u32 && x->Block_0.check_id == j as u32 ==> #[trigger] has_block(errs.push(x), b, j),
    {
        let e2 = errs.push(x);
        assert forall|ii: int| has_authz(errs, ii) implies #[trigger] has_authz(e2, ii) by {
            let k = choose|k: int| 0 <= k < errs.len() && (#[trigger] errs[k]) is Authorizer && errs[k]->Authorizer_0.check_id == ii as u32;
            assert(e2[k] == errs[k]);
        }
        assert forall|b: int, j: int| has_block(errs, b, j) implies #[trigger] has_block(e2, b, j) by {
            let k = choose|k: int| 0 <= k < errs.len() && (#[trigger] errs[k]) is Block && errs[k]->Block_0.block_id == b as u32 && errs[k]->Block_0.check_id == j as u32;
            assert(e2[k] == errs[k]);
        }
        assert(e2[errs.len() as int] == x);
    }
    // everything authorize_inner reads but must not change
    pub open spec fn frame_eq(a: Authorizer, b: Authorizer) -> bool {
        a.world == b.world && a.policies == b.policies && a.blocks == b.blocks && a.authorizer_block_builder == b.authorizer_block_builder
        && a.public_key_to_block_id == b.public_key_to_block_id
    }
}
//@canary reject-any-alternative :: token::authorizer::Authorizer::authorize_inner :: successful = res; ==>> successful = successful || res;
//@canary policy-default-scope :: token::authorizer::Authorizer::authorize_inner :: &authorizer_trusted_origins,\n                    usize::MAX,\n                    &self.public_key_to_block_id,\n                );\n\n                let res = self.world.query_match( ==>> &TrustedOrigins::default(),\n                    usize::MAX,\n                    &self.public_key_to_block_id,\n                );\n\n                let res = self.world.query_match(
//@canary policy-order :: token::authorizer::Authorizer::authorize_inner :: PolicyKind::Allow => policy_result = Some(Ok(i)), ==>> PolicyKind::Allow => policy_result = Some(Ok(0)),
//@canary deny-as-allow :: token::authorizer::Authorizer::authorize_inner :: PolicyKind::Deny => policy_result = Some(Err(i)), ==>> PolicyKind::Deny => policy_result = Some(Ok(i)),
//@canary failed-check-ignored :: token::authorizer::Authorizer::authorize_inner :: (Some(Ok(i)), true) => Ok(i), ==>> (Some(Ok(i)), _) => Ok(i),
//@canary block-check-origin :: token::authorizer::Authorizer::authorize_inner :: query.clone(),\n                                i + 1,\n                                &rule_trusted_origins, ==>> query.clone(),\n                                i,\n                                &rule_trusted_origins,
//@canary authority-scope-block :: token::authorizer::Authorizer::authorize_inner :: &blocks[0].scopes,\n                    &TrustedOrigins::default(),\n                    0, ==>> &blocks[0].scopes,\n                    &TrustedOrigins::default(),\n                    1,
//@canary query-default-widened :: token::authorizer::Authorizer::query_inner :: &TrustedOrigins::default(), ==>> &self.token_origins,
//@canary query-all-branch-flipped :: token::authorizer::Authorizer::query_all_inner :: if rule.scopes.is_empty() { ==>> if !rule.scopes.is_empty() {
//@canary query-all-origin :: token::authorizer::Authorizer::query_all_inner :: .query_rule(rule, 0, &rule_trusted_origins, &self.symbols)?; ==>> .query_rule(rule, usize::MAX, &rule_trusted_origins, &self.symbols)?;
//@canary-requires token::authorizer::Authorizer::query_inner
//@canary-requires token::authorizer::Authorizer::query_all_inner
//@canary clock-read-after-break :: token::authorizer::Authorizer::authorize_inner :: let now = Instant::now();\n                if now >= time_limit {\n                    return Err(error::Token::RunLimit(error::RunLimit::Timeout));\n                }\n\n                if res {\n                    match policy.kind {\n                        PolicyKind::Allow => policy_result = Some(Ok(i)),\n                        PolicyKind::Deny => policy_result = Some(Err(i)),\n                    };\n                    break 'policies_test;\n                } ==>> if res {\n                    match policy.kind {\n                        PolicyKind::Allow => policy_result = Some(Ok(i)),\n                        PolicyKind::Deny => policy_result = Some(Err(i)),\n                    };\n                    break 'policies_test;\n                }\n\n                let now = Instant::now();\n                if now >= time_limit {\n                    return Err(error::Token::RunLimit(error::RunLimit::Timeout));\n                }
//@canary failed-check-wrong-origin :: token::authorizer::Authorizer::authorize_inner :: block_id: 0u32, ==>> block_id: 1u32,
//@canary failed-check-wrong-index :: token::authorizer::Authorizer::authorize_inner :: block_id: (i + 1) as u32, ==>> block_id: i as u32,
//@canary refusal-without-failed-check :: token::authorizer::Authorizer::authorize_inner :: (Some(Ok(i)), true) => Ok(i), ==>> (Some(Ok(i)), true) => Err(error::Token::FailedLogic(error::Logic::Unauthorized { policy: error::MatchedPolicy::Allow(i), checks: errors })),
//@canary-requires token::authorizer::Authorizer::authorize_inner
