// =======================================================================================
// Unit `capi` — biscuit-capi/src/lib.rs (C19): buffer sizes and argument checks of the C entry points.
// Raw-pointer slices go through rewrite R9 (from_raw_parts[_mut](p, n) -> a slice of length n);
// the Rust API enters as assumed contracts; the length facts among them (key encodings are 32 / 33
// bytes, to_vec().len() == serialized_size()) are the ones proved in unit `chain`.
// =======================================================================================
#![feature(allocator_api)]
#![allow(unused)]
use vstd::prelude::*;
verus! {
//@include std_prelude.rs

pub mod rand_stub {
    use vstd::prelude::*;
    #[verifier::external_body] pub struct StdRng { _p: u8 }
    // rand::SeedableRng::from_seed
    #[verifier::external_body]
    pub fn from_seed(seed: [u8; 32]) -> StdRng { unimplemented!() }
}

pub mod biscuit_auth {
    use vstd::prelude::*;
    pub mod error {
        use vstd::prelude::*;
        pub enum Format { InvalidBlockId(usize), Other }
        pub enum Token { Format(Format), AlreadySealed, Other }
    }
    pub mod builder {
        use vstd::prelude::*;
        pub enum Algorithm { Ed25519, Secp256r1 }
        // ASSUMED: the Rust builders (consuming builder pattern); parsing may refuse the source text
        #[verifier::external_body] pub struct BiscuitBuilder { _p: u8 }
        #[verifier::external_body] pub struct BlockBuilder { _p: u8 }
        #[verifier::external_body] pub struct AuthorizerBuilder { _p: u8 }
        impl Clone for BiscuitBuilder { #[verifier::external_body] fn clone(&self) -> (r: Self) ensures r == *self { unimplemented!() } }
        impl Clone for BlockBuilder { #[verifier::external_body] fn clone(&self) -> (r: Self) ensures r == *self { unimplemented!() } }
        impl Clone for AuthorizerBuilder { #[verifier::external_body] fn clone(&self) -> (r: Self) ensures r == *self { unimplemented!() } }
        impl BiscuitBuilder {
            #[verifier::external_body] pub fn context(self, context: String) -> Self { unimplemented!() }
            #[verifier::external_body] pub fn root_key_id(self, id: u32) -> Self { unimplemented!() }
            #[verifier::external_body] pub fn fact(self, s: &str) -> Result<Self, super::error::Token> { unimplemented!() }
            #[verifier::external_body] pub fn rule(self, s: &str) -> Result<Self, super::error::Token> { unimplemented!() }
            #[verifier::external_body] pub fn check(self, s: &str) -> Result<Self, super::error::Token> { unimplemented!() }
            #[verifier::external_body] pub fn build_with_rng(self, root: &super::KeyPair, symbols: super::SymbolTable, rng: &mut crate::rand_stub::StdRng) -> Result<super::Biscuit, super::error::Token> { unimplemented!() }
        }
        impl BlockBuilder {
            #[verifier::external_body] pub fn new() -> Self { unimplemented!() }
            #[verifier::external_body] pub fn context(self, context: String) -> Self { unimplemented!() }
            #[verifier::external_body] pub fn fact(self, s: &str) -> Result<Self, super::error::Token> { unimplemented!() }
            #[verifier::external_body] pub fn rule(self, s: &str) -> Result<Self, super::error::Token> { unimplemented!() }
            #[verifier::external_body] pub fn check(self, s: &str) -> Result<Self, super::error::Token> { unimplemented!() }
        }
        impl AuthorizerBuilder {
            #[verifier::external_body] pub fn new() -> Self { unimplemented!() }
            #[verifier::external_body] pub fn fact(self, s: &str) -> Result<Self, super::error::Token> { unimplemented!() }
            #[verifier::external_body] pub fn rule(self, s: &str) -> Result<Self, super::error::Token> { unimplemented!() }
            #[verifier::external_body] pub fn check(self, s: &str) -> Result<Self, super::error::Token> { unimplemented!() }
            #[verifier::external_body] pub fn policy(self, s: &str) -> Result<Self, super::error::Token> { unimplemented!() }
            #[verifier::external_body] pub fn build(self, token: &super::Biscuit) -> Result<super::Authorizer, super::error::Token> { unimplemented!() }
            #[verifier::external_body] pub fn build_unauthenticated(self) -> Result<super::Authorizer, super::error::Token> { unimplemented!() }
        }
    }
    #[verifier::external_body] pub struct Authorizer { _p: u8 }
    impl Authorizer {
        #[verifier::external_body]
        pub fn authorize(&mut self) -> Result<usize, error::Token> { unimplemented!() }
        #[verifier::external_body]
        pub fn print_world(&self) -> String { unimplemented!() }
    }
    #[verifier::external_body] pub struct SymbolTable { _p: u8 }
    impl SymbolTable { #[verifier::external_body] pub fn default() -> SymbolTable { unimplemented!() } }
    pub mod format { pub mod schema { pub mod public_key {
        use vstd::prelude::*;
        pub enum Algorithm { Ed25519 = 0, Secp256r1 = 1 }
        impl crate::verif_std::VerifInto<crate::biscuit_auth::builder::Algorithm> for Algorithm {
            open spec fn into_req(self) -> bool { true }
            open spec fn into_spec(self) -> crate::biscuit_auth::builder::Algorithm {
                match self { Algorithm::Ed25519 => crate::biscuit_auth::builder::Algorithm::Ed25519, Algorithm::Secp256r1 => crate::biscuit_auth::builder::Algorithm::Secp256r1 }
            }
            #[verifier::external_body]
            fn verif_into(self) -> (r: crate::biscuit_auth::builder::Algorithm) { unimplemented!() }
        }
    } } }
    pub struct Zeroizing { pub inner: Vec<u8> }
    impl Zeroizing {
        // `&private.to_bytes()[..]` (Deref<Target = Vec<u8>> then the full range)
        #[verifier::external_body]
        pub fn as_slice(&self) -> (r: &[u8]) ensures r@ == self.inner@ { unimplemented!() }
    }
    // ASSUMED contracts of the Rust API (the length facts are proved in unit chain)
    #[verifier::external_body] pub struct KeyPair { _p: u8 }
    #[verifier::external_body] pub struct PrivateKey { _p: u8 }
    #[verifier::external_body] #[derive(Clone, Copy)] pub struct PublicKey { _p: u8 }
    #[verifier::external_body] pub struct Biscuit { _p: u8 }
    pub uninterp spec fn pk_is_ed25519(k: PublicKey) -> bool;
    pub uninterp spec fn token_wire_len(b: Biscuit) -> nat;
    pub uninterp spec fn sealed_of(b: Biscuit) -> Biscuit;
    pub uninterp spec fn token_block_count(b: Biscuit) -> nat;
    impl KeyPair {
        #[verifier::external_body]
        pub fn new_with_rng(algorithm: builder::Algorithm, rng: &mut crate::rand_stub::StdRng) -> KeyPair { unimplemented!() }
        #[verifier::external_body]
        pub fn private(&self) -> PrivateKey { unimplemented!() }
        #[verifier::external_body]
        pub fn public(&self) -> PublicKey { unimplemented!() }
        #[verifier::external_body]
        pub fn from(key: &PrivateKey) -> KeyPair { unimplemented!() }
    }
    impl PrivateKey {
        // 32 bytes for both algorithms (chain: crypto::PrivateKey::to_bytes, lemma_bytes_len)
        #[verifier::external_body]
        pub fn to_bytes(&self) -> (r: Zeroizing) ensures r.inner@.len() == 32 { unimplemented!() }
        #[verifier::external_body]
        pub fn from_bytes(bytes: &[u8], algorithm: builder::Algorithm) -> Result<PrivateKey, error::Token> { unimplemented!() }
    }
    impl PublicKey {
        // 32 bytes (ed25519) or 33 bytes (secp256r1, compressed SEC1) (chain: crypto::PublicKey::to_bytes)
        #[verifier::external_body]
        pub fn to_bytes(&self) -> (r: Vec<u8>) ensures r@.len() == (if pk_is_ed25519(*self) { 32int } else { 33int }) { unimplemented!() }
        #[verifier::external_body]
        pub fn from_bytes(bytes: &[u8], algorithm: builder::Algorithm) -> Result<PublicKey, error::Token> { unimplemented!() }
    }
    // read access to the signed container (public API): whether the proof is a seal
    pub struct TokenNext { pub sealed: bool }
    impl TokenNext { pub fn is_sealed(&self) -> (r: bool) ensures r == self.sealed { self.sealed } }
    pub struct SerializedBiscuit { pub proof: TokenNext }
    impl Biscuit {
        #[verifier::external_body]
        pub fn container(&self) -> &SerializedBiscuit { unimplemented!() }
        #[verifier::external_body]
        pub fn builder() -> builder::BiscuitBuilder { unimplemented!() }
        #[verifier::external_body]
        pub fn from(slice: &[u8], root: PublicKey) -> Result<Biscuit, error::Token> { unimplemented!() }
        #[verifier::external_body]
        pub fn append_with_keypair(&self, keypair: &KeyPair, block_builder: builder::BlockBuilder) -> Result<Biscuit, error::Token> { unimplemented!() }
        #[verifier::external_body]
        pub fn authorizer(&self) -> Result<Authorizer, error::Token> { unimplemented!() }
        #[verifier::external_body]
        pub fn print(&self) -> String { unimplemented!() }
        #[verifier::external_body]
        pub fn print_block_source(&self, index: usize) -> Result<String, error::Token> { unimplemented!() }
        // to_vec().len() == serialized_size() for the SAME token (prost: encoded_len is the length of the
        // encoding); nothing relates the size of seal()'s result to the unsealed size
        #[verifier::external_body]
        pub fn serialized_size(&self) -> (r: Result<usize, error::Token>) ensures r is Ok ==> r->Ok_0 == token_wire_len(*self) { unimplemented!() }
        #[verifier::external_body]
        pub fn to_vec(&self) -> (r: Result<Vec<u8>, error::Token>) ensures r is Ok ==> r->Ok_0@.len() == token_wire_len(*self) { unimplemented!() }
        #[verifier::external_body]
        pub fn seal(&self) -> (r: Result<Biscuit, error::Token>) ensures r is Ok ==> r->Ok_0 == sealed_of(*self) { unimplemented!() }
        #[verifier::external_body]
        pub fn block_count(&self) -> (r: usize) ensures r == token_block_count(*self) { unimplemented!() }
        // one context entry per block (token unit: Biscuit::context ensures.len)
        #[verifier::external_body]
        pub fn context(&self) -> (r: Vec<Option<String>>) ensures r@.len() == token_block_count(*self) { unimplemented!() }
    }
}

pub mod capi {
    use vstd::prelude::*;
    use crate::verif_std::*;
    use crate::biscuit_auth;
    use crate::rand_stub::StdRng;
    use crate::biscuit_auth::SymbolTable;
    pub struct SeedableRng { }
    impl SeedableRng { pub fn from_seed(seed: [u8; 32]) -> StdRng { crate::rand_stub::from_seed(seed) } }

    //@extract biscuit-capi/src/lib.rs :: enum Error
    //@end
    // ASSUMED: records the error in a thread-local (RefCell); returns
    #[verifier::external_body]
    fn update_last_error(err: Error) { unimplemented!() }
    // R9: std::slice::from_raw_parts[_mut](p, n): the caller promises a valid buffer of n bytes (C19:
    // "called with ... buffers of the size the API reports")
    #[verifier::external_body]
    pub fn verif_raw_parts<'a>(p: *const u8, n: usize) -> (r: &'a [u8]) ensures r@.len() == n { unimplemented!() }
    #[verifier::external_body]
    pub fn verif_raw_parts_mut<'a>(p: *mut u8, n: usize) -> (r: &'a mut [u8]) ensures r@.len() == n { unimplemented!() }

    //@extract biscuit-capi/src/lib.rs :: struct KeyPair
    //@end
    //@extract biscuit-capi/src/lib.rs :: struct PublicKey
    //@end
    //@extract biscuit-capi/src/lib.rs :: struct Biscuit
    //@end
    //@extract biscuit-capi/src/lib.rs :: enum SignatureAlgorithm
    //@end

    //@extract biscuit-capi/src/lib.rs :: fn key_pair_new
    //@ rewrites R9 R17
    //@ ensures len_guard: seed_len != 32 ==> r is None
    //@end
    //@extract biscuit-capi/src/lib.rs :: fn key_pair_public
    //@ rewrites R9 R17
    //@ ensures null: kp is None ==> r is None
    //@end
    //@extract biscuit-capi/src/lib.rs :: fn key_pair_serialize
    //@ rewrites R9 R17
    //@ ensures written: kp is Some ==> r == 32
    //@ ensures null: kp is None ==> r == 0
    //@end
    //@extract biscuit-capi/src/lib.rs :: fn key_pair_deserialize
    //@ rewrites R9 R17
    //@end
    //@extract biscuit-capi/src/lib.rs :: fn public_key_serialize
    //@ rewrites R9 R17
    //@ ensures written: kp is Some ==> r == 32
    //@ ensures null: kp is None ==> r == 0
    //@end
    //@extract biscuit-capi/src/lib.rs :: fn public_key_deserialize
    //@ rewrites R9 R17
    //@end
    //@extract biscuit-capi/src/lib.rs :: fn biscuit_serialized_size
    //@ rewrites R9 R17
    //@ ensures size: biscuit is Some && r != 0 ==> r == biscuit_auth::token_wire_len(biscuit->Some_0.0)
    //@ ensures null: biscuit is None ==> r == 0
    //@end
    //@extract biscuit-capi/src/lib.rs :: fn biscuit_serialize
    //@ rewrites R9 R17
    //@ ensures announced: biscuit is Some && r != 0 ==> r == biscuit_auth::token_wire_len(biscuit->Some_0.0)
    //@ ensures null: biscuit is None ==> r == 0
    //@end
    //@extract biscuit-capi/src/lib.rs :: fn biscuit_sealed_size
    //@ rewrites R9 R17
    //@ ensures size: biscuit is Some && r != 0 ==> r == biscuit_auth::token_wire_len(biscuit_auth::sealed_of(biscuit->Some_0.0))
    //@ ensures null: biscuit is None ==> r == 0
    //@ closure 0 returns Result<usize, biscuit_auth::error::Token>
    //@ closure 0 ensures size: verif_r is Ok ==> verif_r->Ok_0 == biscuit_auth::token_wire_len(b)
    //@end
    //@extract biscuit-capi/src/lib.rs :: fn biscuit_serialize_sealed
    //@ rewrites R9 R17
    //@ ensures announced: biscuit is Some && r != 0 ==> r == biscuit_auth::token_wire_len(biscuit_auth::sealed_of(biscuit->Some_0.0))
    //@ ensures null: biscuit is None ==> r == 0
    //@end
    // stand-ins for std::ffi::CString / c_char (ASSUMED: new refuses interior NULs, into_raw never fails)
    #[allow(non_camel_case_types)]
    pub type c_char = i8;
    #[verifier::external_body] pub struct CString { _p: u8 }
    #[verifier::external_body] pub struct NulError { _p: u8 }
    impl CString {
        #[verifier::external_body]
        pub fn new(s: String) -> Result<CString, NulError> { unimplemented!() }
        #[verifier::external_body]
        pub fn into_raw(self) -> *mut c_char { unimplemented!() }
    }
    // ---- builder handles: `self.0` holds the Rust builder between calls (handle invariant `.0 is Some`) ----
    //@extract biscuit-capi/src/lib.rs :: struct BiscuitBuilder
    //@end
    //@extract biscuit-capi/src/lib.rs :: struct BlockBuilder
    //@end
    //@extract biscuit-capi/src/lib.rs :: struct AuthorizerBuilder
    //@end
    //@extract biscuit-capi/src/lib.rs :: struct Authorizer
    //@end
    impl BiscuitBuilder {
        //@extract biscuit-capi/src/lib.rs :: impl BiscuitBuilder :: fn set_context
        //@ sub context\.to_string\(\) => verif_str_to_string(context)
        //@ requires handle: old(self).0 is Some
        //@ ensures handle: final(self).0 is Some
        //@end
        //@extract biscuit-capi/src/lib.rs :: impl BiscuitBuilder :: fn set_root_key_id
        //@ requires handle: old(self).0 is Some
        //@ ensures handle: final(self).0 is Some
        //@end
        //@extract biscuit-capi/src/lib.rs :: impl BiscuitBuilder :: fn add_fact
        //@ requires handle: old(self).0 is Some
        //@ ensures handle: final(self).0 is Some
        //@end
        //@extract biscuit-capi/src/lib.rs :: impl BiscuitBuilder :: fn add_rule
        //@ requires handle: old(self).0 is Some
        //@ ensures handle: final(self).0 is Some
        //@end
        //@extract biscuit-capi/src/lib.rs :: impl BiscuitBuilder :: fn add_check
        //@ requires handle: old(self).0 is Some
        //@ ensures handle: final(self).0 is Some
        //@end
    }
    impl BlockBuilder {
        //@extract biscuit-capi/src/lib.rs :: impl BlockBuilder :: fn set_context
        //@ sub context\.to_string\(\) => verif_str_to_string(context)
        //@ requires handle: old(self).0 is Some
        //@ ensures handle: final(self).0 is Some
        //@end
        //@extract biscuit-capi/src/lib.rs :: impl BlockBuilder :: fn add_fact
        //@ requires handle: old(self).0 is Some
        //@ ensures handle: final(self).0 is Some
        //@end
        //@extract biscuit-capi/src/lib.rs :: impl BlockBuilder :: fn add_rule
        //@ requires handle: old(self).0 is Some
        //@ ensures handle: final(self).0 is Some
        //@end
        //@extract biscuit-capi/src/lib.rs :: impl BlockBuilder :: fn add_check
        //@ requires handle: old(self).0 is Some
        //@ ensures handle: final(self).0 is Some
        //@end
    }
    impl AuthorizerBuilder {
        //@extract biscuit-capi/src/lib.rs :: impl AuthorizerBuilder :: fn add_fact
        //@ requires handle: old(self).0 is Some
        //@ ensures handle: final(self).0 is Some
        //@end
        //@extract biscuit-capi/src/lib.rs :: impl AuthorizerBuilder :: fn add_rule
        //@ requires handle: old(self).0 is Some
        //@ ensures handle: final(self).0 is Some
        //@end
        //@extract biscuit-capi/src/lib.rs :: impl AuthorizerBuilder :: fn add_check
        //@ requires handle: old(self).0 is Some
        //@ ensures handle: final(self).0 is Some
        //@end
        //@extract biscuit-capi/src/lib.rs :: impl AuthorizerBuilder :: fn add_policy
        //@ requires handle: old(self).0 is Some
        //@ ensures handle: final(self).0 is Some
        //@end
    }
    #[verifier::external_body]
    pub fn verif_str_to_string(s: &str) -> String { unimplemented!() }
    // C strings: ASSUMED valid NUL-terminated buffers (the property assumes valid handles and buffers)
    #[verifier::external_body] pub struct CStr { _p: u8 }
    #[verifier::external_body] pub struct Utf8Error { _p: u8 }
    impl std::fmt::Debug for Utf8Error { #[verifier::external_body] fn fmt(&self, f: &mut std::fmt::Formatter<'_>) -> std::fmt::Result { unimplemented!() } }
    impl CStr {
        #[verifier::external_body]
        pub fn from_ptr<'a>(p: *const c_char) -> &'a CStr { unimplemented!() }
        #[verifier::external_body]
        pub fn to_str(&self) -> Result<&str, Utf8Error> { unimplemented!() }
    }
    //@extract biscuit-capi/src/lib.rs :: fn biscuit_builder_add_fact
    //@ rewrites R9 R17
    //@ requires handle: builder is Some ==> builder->Some_0.0 is Some
    //@ ensures null: builder is None ==> !r
    //@end
    //@extract biscuit-capi/src/lib.rs :: fn biscuit_builder_set_context
    //@ rewrites R9 R17
    //@ requires handle: builder is Some ==> builder->Some_0.0 is Some
    //@ ensures null: builder is None ==> !r
    //@end
    //@extract biscuit-capi/src/lib.rs :: fn biscuit_builder_add_rule
    //@ rewrites R9 R17
    //@ requires handle: builder is Some ==> builder->Some_0.0 is Some
    //@ ensures null: builder is None ==> !r
    //@end
    //@extract biscuit-capi/src/lib.rs :: fn biscuit_builder_add_check
    //@ rewrites R9 R17
    //@ requires handle: builder is Some ==> builder->Some_0.0 is Some
    //@ ensures null: builder is None ==> !r
    //@end
    //@extract biscuit-capi/src/lib.rs :: fn block_builder_set_context
    //@ rewrites R9 R17
    //@ requires handle: builder is Some ==> builder->Some_0.0 is Some
    //@ ensures null: builder is None ==> !r
    //@end
    //@extract biscuit-capi/src/lib.rs :: fn block_builder_add_fact
    //@ rewrites R9 R17
    //@ requires handle: builder is Some ==> builder->Some_0.0 is Some
    //@ ensures null: builder is None ==> !r
    //@end
    //@extract biscuit-capi/src/lib.rs :: fn block_builder_add_rule
    //@ rewrites R9 R17
    //@ requires handle: builder is Some ==> builder->Some_0.0 is Some
    //@ ensures null: builder is None ==> !r
    //@end
    //@extract biscuit-capi/src/lib.rs :: fn block_builder_add_check
    //@ rewrites R9 R17
    //@ requires handle: builder is Some ==> builder->Some_0.0 is Some
    //@ ensures null: builder is None ==> !r
    //@end
    //@extract biscuit-capi/src/lib.rs :: fn authorizer_builder_add_fact
    //@ rewrites R9 R17
    //@ requires handle: builder is Some ==> builder->Some_0.0 is Some
    //@ ensures null: builder is None ==> !r
    //@end
    //@extract biscuit-capi/src/lib.rs :: fn authorizer_builder_add_rule
    //@ rewrites R9 R17
    //@ requires handle: builder is Some ==> builder->Some_0.0 is Some
    //@ ensures null: builder is None ==> !r
    //@end
    //@extract biscuit-capi/src/lib.rs :: fn authorizer_builder_add_check
    //@ rewrites R9 R17
    //@ requires handle: builder is Some ==> builder->Some_0.0 is Some
    //@ ensures null: builder is None ==> !r
    //@end
    //@extract biscuit-capi/src/lib.rs :: fn authorizer_builder_add_policy
    //@ rewrites R9 R17
    //@ requires handle: builder is Some ==> builder->Some_0.0 is Some
    //@ ensures null: builder is None ==> !r
    //@end
    //@extract biscuit-capi/src/lib.rs :: fn biscuit_builder_set_root_key_id
    //@ rewrites R9 R17
    //@ requires handle: builder is Some ==> builder->Some_0.0 is Some
    //@ ensures null: builder is None ==> !r
    //@end
    //@extract biscuit-capi/src/lib.rs :: fn biscuit_builder_build
    //@ rewrites R9 R17
    //@ requires handle: builder is Some ==> builder->Some_0.0 is Some
    //@ ensures null: (builder is None || key_pair is None || seed_len != 32) ==> r is None
    //@end
    //@extract biscuit-capi/src/lib.rs :: fn biscuit_from
    //@ rewrites R9 R17
    //@ ensures null: root is None ==> r is None
    //@end
    //@extract biscuit-capi/src/lib.rs :: fn biscuit_append_block
    //@ rewrites R9 R17
    //@ requires handle: block_builder is Some ==> block_builder->Some_0.0 is Some
    //@ ensures null: (biscuit is None || block_builder is None || key_pair is None) ==> r is None
    //@end
    //@extract biscuit-capi/src/lib.rs :: fn biscuit_authorizer
    //@ rewrites R9 R17
    //@ ensures null: biscuit is None ==> r is None
    //@end
    //@extract biscuit-capi/src/lib.rs :: fn authorizer_authorize
    //@ rewrites R9 R17
    //@ ensures null: authorizer is None ==> !r
    //@end
    //@extract biscuit-capi/src/lib.rs :: fn authorizer_print
    //@ rewrites R9 R17
    //@end
    //@extract biscuit-capi/src/lib.rs :: fn biscuit_print
    //@ rewrites R9 R17
    //@end
    //@extract biscuit-capi/src/lib.rs :: fn biscuit_print_block_source
    //@ rewrites R9 R17
    //@end
    //@extract biscuit-capi/src/lib.rs :: fn biscuit_builder
    //@ ensures handle: r is Some && r->Some_0.0 is Some
    //@end
    //@extract biscuit-capi/src/lib.rs :: fn create_block
    //@ ensures handle: r.0 is Some
    //@end
    //@extract biscuit-capi/src/lib.rs :: fn authorizer_builder
    //@ ensures handle: r is Some && r->Some_0.0 is Some
    //@end
    //@extract biscuit-capi/src/lib.rs :: fn authorizer_builder_build
    //@ requires handle: builder is Some ==> builder->Some_0.0 is Some
    //@ ensures null: builder is None ==> r is None
    //@end
    //@extract biscuit-capi/src/lib.rs :: fn authorizer_builder_build_unauthenticated
    //@ requires handle: builder is Some ==> builder->Some_0.0 is Some
    //@ ensures null: builder is None ==> r is None
    //@end
    //@extract biscuit-capi/src/lib.rs :: fn biscuit_block_context
    //@ rewrites R9 R17
    //@end
    //@extract biscuit-capi/src/lib.rs :: fn biscuit_block_count
    //@ rewrites R9 R17
    //@ ensures null: biscuit is None ==> r == 0
    //@end
}
//@canary keypair-seed-guard :: biscuit-capi::lib::key_pair_new :: if slice.len() != 32 { ==>> if slice.len() > 32 {
//@canary sealed-size-unsealed :: biscuit-capi::lib::biscuit_serialize_sealed :: let size = match b.serialized_size() { ==>> let size = match biscuit.0.serialized_size() {
//@canary sealed-size-query :: biscuit-capi::lib::biscuit_sealed_size :: match biscuit.0.seal().and_then(|b| b.serialized_size()) { ==>> match biscuit.0.seal().and_then(|b| biscuit.0.serialized_size()) {
//@canary serialize-null-check :: biscuit-capi::lib::biscuit_serialize :: let biscuit = biscuit.unwrap(); ==>> let biscuit = biscuit.unwrap(); if false { return 0; }
//@canary keypair-serialize-size :: biscuit-capi::lib::key_pair_serialize :: std::slice::from_raw_parts_mut(buffer_ptr, 32) ==>> std::slice::from_raw_parts_mut(buffer_ptr, 31)
//@canary builder-handle-emptied :: biscuit-capi::lib::BiscuitBuilder::add_fact :: self.0.clone().unwrap(); ==>> self.0.take().unwrap();
//@canary authorizer-builder-handle-emptied :: biscuit-capi::lib::AuthorizerBuilder::add_policy :: self.0.clone().unwrap(); ==>> self.0.take().unwrap();
//@canary builder-null-no-return :: biscuit-capi::lib::authorizer_builder_build :: update_last_error(Error::InvalidArgument);\n        return None; ==>> update_last_error(Error::InvalidArgument);
//@canary block-builder-null-no-return :: biscuit-capi::lib::block_builder_add_fact :: update_last_error(Error::InvalidArgument);\n        return false;\n    }\n    let builder = builder.unwrap(); ==>> update_last_error(Error::InvalidArgument);\n    }\n    let builder = builder.unwrap();
//@canary build-seed-guard :: biscuit-capi::lib::biscuit_builder_build :: if slice.len() != 32 { ==>> if slice.len() > 32 {
//@canary authorize-null-no-return :: biscuit-capi::lib::authorizer_authorize :: update_last_error(Error::InvalidArgument);\n        return false; ==>> update_last_error(Error::InvalidArgument);
} // verus!
fn main() {}
