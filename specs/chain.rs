// =======================================================================================
// Unit `chain` — the signed block chain (C01, C02, C07, C08, C15; parts of C16 / C17).
// Every `//@extract` block splices the current text of the named item of /repo here.
// =======================================================================================
#![feature(allocator_api)]
#![allow(unused)]
#![allow(non_snake_case)]
use vstd::prelude::*;
verus! {
//@include std_prelude.rs
//@include dep_crypto.rs
//@include error_mod.rs

pub mod builder {
    use vstd::prelude::*;
    //@extract biscuit-auth/src/token/builder/algorithm.rs :: enum Algorithm
    //@end
}

pub mod token {
    use vstd::prelude::*;
    //@extract biscuit-auth/src/token/mod.rs :: const DATALOG_3_3
    //@end
    // stand-in for token::Block (the Datalog block before serialization); only its
    // `version` field is read by the functions of this unit
    pub struct Block { pub version: u32, pub verif_content: u64 }
    // token::RootKeyProvider, with the one method the container code calls
    pub trait RootKeyProvider {
        spec fn choose_spec(&self, key_id: Option<u32>) -> Result<crate::crypto::PublicKey, crate::error::Format>;
        fn choose(&self, key_id: Option<u32>) -> (r: Result<crate::crypto::PublicKey, crate::error::Format>)
            ensures r == self.choose_spec(key_id);
    }
}

//@include chain_spec.rs
//@include chain_crypto.rs
//@include chain_format.rs

} // verus!
fn main() {}
