pub mod rand {
    // stand-ins for rand_core's marker traits and the OS generator
    pub trait RngCore {}
    pub trait CryptoRng {}
    pub mod rngs { use vstd::prelude::*; pub struct OsRng; impl super::RngCore for OsRng {} impl super::CryptoRng for OsRng {} }
}
// ---------------------------------------------------------------------------------------
// chain_crypto.rs — crate::crypto (crypto/mod.rs, crypto/ed25519.rs, crypto/p256.rs)
// ---------------------------------------------------------------------------------------
pub mod crypto {
    use vstd::prelude::*;
    use crate::verif_std::*;
    use crate::builder::Algorithm;
    use crate::format::schema;
    use crate::format::ThirdPartyVerificationMode;
    use crate::zeroize;
    use super::error;
    use crate::spec::*;
    broadcast use {crate::error::qm_axioms, crate::verif_std::verif_std_axioms};

    pub mod ed25519 {
        use vstd::prelude::*;
        use crate::verif_std::*;
        use crate::{error::Format, format::schema};
        use super::Signature;
        use super::error;
        use crate::ed25519_dalek;
        use crate::ed25519_dalek::*;
        broadcast use {crate::error::qm_axioms, crate::ed25519_dalek::dalek_axioms, crate::verif_std::verif_std_axioms};

        //@extract biscuit-auth/src/crypto/ed25519.rs :: struct KeyPair
        //@end
        //@extract biscuit-auth/src/crypto/ed25519.rs :: struct PrivateKey
        //@end
        //@extract biscuit-auth/src/crypto/ed25519.rs :: struct PublicKey
        //@end

        pub closed spec fn sk_from_bytes(b: Seq<u8>) -> SigningKey { choose|k: SigningKey| sk_bytes(k) == b }

        impl PublicKey {
            pub closed spec fn spec_bytes(self) -> Seq<u8> { vk_bytes(self.0) }
            // "this signature verifies" = 64 bytes + dalek's STRICT (non-malleable) verification
            pub closed spec fn spec_verify(self, msg: Seq<u8>, sig: Seq<u8>) -> bool {
                sig.len() == 64 && strict_ok(self.0, msg, sig)
            }
            pub closed spec fn spec_decodes(self, bytes: Seq<u8>) -> bool { vk_bytes(self.0) == bytes }
            pub broadcast proof fn lemma_bytes_len(self) ensures #[trigger] self.spec_bytes().len() == 32 {}
            pub broadcast proof fn lemma_bytes_inj(self, o: PublicKey)
                ensures #[trigger] self.spec_bytes() == #[trigger] o.spec_bytes() ==> self == o {}
            pub proof fn lemma_decodes(self, o: PublicKey, b: Seq<u8>)
                ensures self.spec_decodes(self.spec_bytes()),
                        self.spec_decodes(b) && o.spec_decodes(b) ==> self == o {}

            //@extract biscuit-auth/src/crypto/ed25519.rs :: impl PublicKey :: fn to_bytes
            //@ ensures bytes: r@ == self.spec_bytes()
            //@end

            //@extract biscuit-auth/src/crypto/ed25519.rs :: impl PublicKey :: fn from_bytes
            //@ ensures len: r is Ok ==> bytes@.len() == 32
            //@ ensures bytes: r is Ok ==> r->Ok_0.spec_bytes() == bytes@ && r->Ok_0.spec_decodes(bytes@)
            //@ ensures size_err: bytes@.len() != 32 ==> r == Err::<_, error::Format>(Format::InvalidKeySize(bytes.len()))
            //@end

            //@extract biscuit-auth/src/crypto/ed25519.rs :: impl PublicKey :: fn verify_signature
            //@ ensures strict: r is Ok ==> self.spec_verify(data@, signature.0@)
            //@end
        }
        impl PrivateKey {
            pub closed spec fn spec_bytes(self) -> Seq<u8> { self.0@ }
            pub closed spec fn spec_keypair(self) -> KeyPair { KeyPair { kp: sk_from_bytes(self.0@) } }
            pub broadcast proof fn lemma_bytes_len(self) ensures #[trigger] self.spec_bytes().len() == 32 {}
            pub broadcast proof fn lemma_bytes_inj(self, o: PrivateKey)
                ensures #[trigger] self.spec_bytes() == #[trigger] o.spec_bytes() ==> self == o {}

            //@extract biscuit-auth/src/crypto/ed25519.rs :: impl PrivateKey :: fn to_bytes
            //@ ensures bytes: r@ == self.spec_bytes()
            //@end
            //@extract biscuit-auth/src/crypto/ed25519.rs :: impl PrivateKey :: fn from_bytes
            //@ ensures ok: r is Ok <==> bytes@.len() == 32
            //@ ensures bytes: r is Ok ==> r->Ok_0.spec_bytes() == bytes@
            //@ ensures size_err: bytes@.len() != 32 ==> r == Err::<_, error::Format>(Format::InvalidKeySize(bytes.len()))
            //@end
            //@extract biscuit-auth/src/crypto/ed25519.rs :: impl PrivateKey :: fn public
            //@ ensures public: r == self.spec_keypair().spec_public()
            //@end
        }
        impl Clone for PrivateKey {
            //@extract biscuit-auth/src/crypto/ed25519.rs :: impl std::clone::Clone for PrivateKey :: fn clone
            //@ ensures same: r == *self
            //@end
        }
        impl KeyPair {
            pub closed spec fn spec_public(self) -> PublicKey { PublicKey(vk_of(self.kp)) }
            pub closed spec fn spec_private(self) -> PrivateKey { PrivateKey(arr_of::<32>(sk_bytes(self.kp))) }
            pub closed spec fn spec_sign(self, msg: Seq<u8>) -> Seq<u8> { sign_spec(self.kp, msg) }
            pub closed spec fn wf(self) -> bool { sk_bytes(self.kp).len() == 32 }

            pub proof fn lemma_sign_verifies(self, msg: Seq<u8>)
                ensures self.spec_public().spec_verify(msg, self.spec_sign(msg)) {}
            pub proof fn lemma_private_roundtrip(self)
                requires self.wf()
                ensures self.spec_private().spec_keypair() == self
            {
                assert(sk_bytes(sk_from_bytes(sk_bytes(self.kp))) == sk_bytes(self.kp));
            }

            //@extract biscuit-auth/src/crypto/ed25519.rs :: impl KeyPair :: fn from
            //@ ensures from: r == key.spec_keypair()
            //@ ensures wf: r.wf()
            //@end
            //@extract biscuit-auth/src/crypto/ed25519.rs :: impl KeyPair :: fn from_bytes
            //@ ensures ok: r is Ok <==> bytes@.len() == 32
            //@ ensures wf: r is Ok ==> r->Ok_0.wf() && r->Ok_0.spec_private().spec_bytes() == bytes@
            //@ ensures size_err: bytes@.len() != 32 ==> r == Err::<_, error::Format>(Format::InvalidKeySize(bytes.len()))
            //@end
            //@extract biscuit-auth/src/crypto/ed25519.rs :: impl KeyPair :: fn sign
            //@ ensures sign: r is Ok ==> r->Ok_0.0@ == self.spec_sign(data@)
            //@end
            //@extract biscuit-auth/src/crypto/ed25519.rs :: impl KeyPair :: fn private
            //@ requires wf: self.wf()
            //@ ensures private: r == self.spec_private()
            //@end
            //@extract biscuit-auth/src/crypto/ed25519.rs :: impl KeyPair :: fn public
            //@ ensures public: r == self.spec_public()
            //@end
        }
    }

    pub mod p256 {
        use vstd::prelude::*;
        use crate::verif_std::*;
        use crate::{error::Format, format::schema};
        use super::Signature;
        use super::error;
        use crate::p256;
        use crate::ecdsa;
        use crate::zeroize;
        use crate::p256::ecdsa::{SigningKey, VerifyingKey};
        use crate::p256::ecdsa::{vk_bytes, vk_of, sk_bytes, der, ecdsa_ok, sign_spec};
        use crate::p256::NistP256;
        broadcast use {crate::error::qm_axioms, crate::p256::ecdsa::p256_axioms, crate::verif_std::verif_std_axioms};

        //@extract biscuit-auth/src/crypto/p256.rs :: struct KeyPair
        //@end
        //@extract biscuit-auth/src/crypto/p256.rs :: struct PrivateKey
        //@end
        //@extract biscuit-auth/src/crypto/p256.rs :: struct PublicKey
        //@end

        impl PublicKey {
            pub closed spec fn spec_bytes(self) -> Seq<u8> { vk_bytes(self.0) }
            // "this signature verifies" = the bytes are the DER form of an ECDSA signature that p256 accepts
            pub closed spec fn spec_verify(self, msg: Seq<u8>, sig: Seq<u8>) -> bool {
                exists|s: p256::ecdsa::Signature| der(s) == sig && ecdsa_ok(self.0, msg, s)
            }
            // C15 (not malleable): an accepted signature is the canonical one of the pair (r, s) / (r, n - s), so that
            // nobody can present the same block under a second identifier (ed25519: strict verification above)
            pub closed spec fn spec_canonical(sig: Seq<u8>) -> bool {
                exists|s: p256::ecdsa::Signature| der(s) == sig && p256::ecdsa::low_s(s)
            }
            pub closed spec fn spec_decodes(self, bytes: Seq<u8>) -> bool { p256::ecdsa::sec1_decodes(bytes, self.0) }
            pub broadcast proof fn lemma_bytes_len(self) ensures #[trigger] self.spec_bytes().len() == 33 {}
            pub broadcast proof fn lemma_bytes_inj(self, o: PublicKey)
                ensures #[trigger] self.spec_bytes() == #[trigger] o.spec_bytes() ==> self == o {}
            pub proof fn lemma_decodes(self, o: PublicKey, b: Seq<u8>)
                ensures self.spec_decodes(self.spec_bytes()),
                        self.spec_decodes(b) && o.spec_decodes(b) ==> self == o
            { p256::ecdsa::ax_sec1_function(b, self.0, o.0); p256::ecdsa::ax_sec1_total(self.0); }

            //@extract biscuit-auth/src/crypto/p256.rs :: impl PublicKey :: fn to_bytes
            //@ ensures bytes: r@ == self.spec_bytes()
            //@ external_body
            //@end
            //@extract biscuit-auth/src/crypto/p256.rs :: impl PublicKey :: fn from_bytes
            //@ ensures bytes: r is Ok ==> r->Ok_0.spec_decodes(bytes@)
            //@ ensures compressed: r is Ok && bytes@.len() == 33 ==> r->Ok_0.spec_bytes() == bytes@
            //@end
            //@extract biscuit-auth/src/crypto/p256.rs :: impl PublicKey :: fn verify_signature
            //@ ensures ecdsa: r is Ok ==> self.spec_verify(data@, signature.0@)
            //@ ensures canonical: r is Ok ==> Self::spec_canonical(signature.0@)
            //@end
        }
        impl PrivateKey {
            pub closed spec fn spec_bytes(self) -> Seq<u8> { sk_bytes(self.0) }
            pub closed spec fn spec_keypair(self) -> KeyPair { KeyPair { kp: self.0 } }
            pub broadcast proof fn lemma_bytes_len(self) ensures #[trigger] self.spec_bytes().len() == 32 {}
            pub broadcast proof fn lemma_bytes_inj(self, o: PrivateKey)
                ensures #[trigger] self.spec_bytes() == #[trigger] o.spec_bytes() ==> self == o {}

            //@extract biscuit-auth/src/crypto/p256.rs :: impl PrivateKey :: fn to_bytes
            //@ ensures bytes: r.inner@ == self.spec_bytes()
            //@end
            //@extract biscuit-auth/src/crypto/p256.rs :: impl PrivateKey :: fn from_bytes
            //@ ensures len: r is Ok ==> bytes@.len() == 32
            //@ ensures bytes: r is Ok ==> r->Ok_0.spec_bytes() == bytes@
            //@ ensures size_err: bytes@.len() != 32 ==> r == Err::<_, error::Format>(Format::InvalidKeySize(bytes.len()))
            //@end
            //@extract biscuit-auth/src/crypto/p256.rs :: impl PrivateKey :: fn public
            //@ ensures public: r == self.spec_keypair().spec_public()
            //@end
        }
        impl KeyPair {
            pub closed spec fn spec_public(self) -> PublicKey { PublicKey(vk_of(self.kp)) }
            pub closed spec fn spec_private(self) -> PrivateKey { PrivateKey(self.kp) }
            pub closed spec fn spec_sign(self, msg: Seq<u8>) -> Seq<u8> { der(sign_spec(self.kp, msg)) }
            pub open spec fn wf(self) -> bool { true }

            pub proof fn lemma_sign_verifies(self, msg: Seq<u8>)
                ensures self.spec_public().spec_verify(msg, self.spec_sign(msg)) {}
            pub proof fn lemma_private_roundtrip(self)
                ensures self.spec_private().spec_keypair() == self {}

            //@extract biscuit-auth/src/crypto/p256.rs :: impl KeyPair :: fn from
            //@ ensures from: r == key.spec_keypair()
            //@end
            //@extract biscuit-auth/src/crypto/p256.rs :: impl KeyPair :: fn from_bytes
            //@ ensures len: r is Ok ==> bytes@.len() == 32
            //@ ensures bytes: r is Ok ==> r->Ok_0.spec_private().spec_bytes() == bytes@
            //@ ensures size_err: bytes@.len() != 32 ==> r == Err::<_, error::Format>(Format::InvalidKeySize(bytes.len()))
            //@end
            //@extract biscuit-auth/src/crypto/p256.rs :: impl KeyPair :: fn sign
            //@ ensures sign: r is Ok ==> r->Ok_0.0@ == self.spec_sign(data@)
            //@end
            //@extract biscuit-auth/src/crypto/p256.rs :: impl KeyPair :: fn private
            //@ ensures private: r == self.spec_private()
            //@end
            //@extract biscuit-auth/src/crypto/p256.rs :: impl KeyPair :: fn public
            //@ ensures public: r == self.spec_public()
            //@end
        }
    }

    //@extract biscuit-auth/src/crypto/mod.rs :: enum KeyPair
    //@end
    //@extract biscuit-auth/src/crypto/mod.rs :: enum PrivateKey
    //@end
    //@extract biscuit-auth/src/crypto/mod.rs :: enum PublicKey
    //@end
    //@extract biscuit-auth/src/crypto/mod.rs :: struct Signature
    //@end
    //@extract biscuit-auth/src/crypto/mod.rs :: struct Block
    //@end
    //@extract biscuit-auth/src/crypto/mod.rs :: struct ExternalSignature
    //@end
    //@extract biscuit-auth/src/crypto/mod.rs :: enum TokenNext
    //@end

    // ASSUMED: the derived Clone impls are structural copies; the derived PartialEq of PublicKey
    // is structural (its leaves compare key encodings, which determine the key)
    impl Clone for Signature {
        #[verifier::external_body]
        fn clone(&self) -> (r: Self) ensures r == *self { unimplemented!() }
    }
    impl Clone for Block {
        #[verifier::external_body]
        fn clone(&self) -> (r: Self) ensures r == *self { unimplemented!() }
    }
    impl Clone for ExternalSignature {
        #[verifier::external_body]
        fn clone(&self) -> (r: Self) ensures r == *self { unimplemented!() }
    }
    impl vstd::std_specs::cmp::PartialEqSpecImpl for PublicKey {
        open spec fn obeys_eq_spec() -> bool { true }
        open spec fn eq_spec(&self, other: &PublicKey) -> bool { *self == *other }
    }
    impl PartialEq for PublicKey {
        #[verifier::external_body]
        fn eq(&self, other: &PublicKey) -> bool { unimplemented!() }
    }

    // ORACLE (C15, "fresh random next key per block"): the key pair a random generator yields, as a function of the generator. The RNG is modelled as a
    // name, NOT as a source of entropy: nothing about freshness, uniqueness or unpredictability is claimed, only WHICH key
    // a function uses.
    pub uninterp spec fn rng_keypair<T>(algorithm: Algorithm, rng: T) -> KeyPair;
    impl KeyPair {
        pub open spec fn wf(self) -> bool {
            match self { KeyPair::Ed25519(k) => k.wf(), KeyPair::P256(k) => k.wf() }
        }
        // ASSUMED (crypto/mod.rs new_with_rng + rand): key generation from the OS RNG returns a well-formed key pair of the
        // requested algorithm
        #[verifier::external_body]
        pub fn new_with_rng<T: crate::rand::RngCore + crate::rand::CryptoRng>(algorithm: Algorithm, rng: &mut T) -> (r: KeyPair)
            ensures r == rng_keypair::<T>(algorithm, *old(rng)), r.wf(), (algorithm is Ed25519 <==> r is Ed25519)
        { unimplemented!() }
        //@extract biscuit-auth/src/crypto/mod.rs :: impl KeyPair :: fn from
        //@ ensures from: r == kp_of(*key)
        //@ ensures wf: r.wf()
        //@end
        //@extract biscuit-auth/src/crypto/mod.rs :: impl KeyPair :: fn from_bytes
        //@ ensures alg: r is Ok ==> (algorithm is Ed25519 <==> r->Ok_0 is Ed25519)
        //@ ensures len: r is Ok ==> bytes@.len() == 32
        //@ ensures bytes: r is Ok ==> sk_bytes_of(kp_private(r->Ok_0)) == bytes@
        //@end
        //@extract biscuit-auth/src/crypto/mod.rs :: impl KeyPair :: fn sign
        //@ ensures sign: r is Ok ==> r->Ok_0.0@ == sign_spec(*self, data@)
        //@end
        //@extract biscuit-auth/src/crypto/mod.rs :: impl KeyPair :: fn private
        //@ requires wf: self.wf()
        //@ ensures private: r == kp_private(*self)
        //@end
        //@extract biscuit-auth/src/crypto/mod.rs :: impl KeyPair :: fn public
        //@ ensures public: r == kp_public(*self)
        //@end
        //@extract biscuit-auth/src/crypto/mod.rs :: impl KeyPair :: fn algorithm
        //@ ensures tag: r as i32 == alg_code(kp_public(*self))
        //@end
    }
    impl PrivateKey {
        //@extract biscuit-auth/src/crypto/mod.rs :: impl PrivateKey :: fn to_bytes
        //@ ensures bytes: r.inner@ == sk_bytes_of(*self)
        //@end
        //@extract biscuit-auth/src/crypto/mod.rs :: impl PrivateKey :: fn from_bytes
        //@ ensures bytes: r is Ok ==> sk_bytes_of(r->Ok_0) == bytes@
        //@ ensures alg: r is Ok ==> (algorithm is Ed25519 <==> r->Ok_0 is Ed25519)
        //@ ensures len: r is Ok ==> bytes@.len() == 32
        //@end
        //@extract biscuit-auth/src/crypto/mod.rs :: impl PrivateKey :: fn public
        //@ ensures public: r == pk_of(*self)
        //@end
        //@extract biscuit-auth/src/crypto/mod.rs :: impl PrivateKey :: fn algorithm
        //@ ensures tag: r as i32 == alg_code(pk_of(*self))
        //@end
    }
    impl PublicKey {
        //@extract biscuit-auth/src/crypto/mod.rs :: impl PublicKey :: fn to_bytes
        //@ ensures bytes: r@ == pk_bytes(*self)
        //@end
        //@extract biscuit-auth/src/crypto/mod.rs :: impl PublicKey :: fn from_bytes
        //@ ensures alg: r is Ok ==> (algorithm is Ed25519 <==> r->Ok_0 is Ed25519)
        //@ ensures decodes: r is Ok ==> pk_decodes(r->Ok_0, bytes@)
        //@ ensures ed_len: r is Ok && algorithm is Ed25519 ==> bytes@.len() == 32
        //@end
        //@extract biscuit-auth/src/crypto/mod.rs :: impl PublicKey :: fn from_proto
        //@ ensures rel: r is Ok ==> pk_proto_rel(*key, r->Ok_0)
        //@end
        //@extract biscuit-auth/src/crypto/mod.rs :: impl PublicKey :: fn to_proto
        //@ ensures exact: r.algorithm == alg_code(*self) && r.key@ == pk_bytes(*self)
        //@end
        //@extract biscuit-auth/src/crypto/mod.rs :: impl PublicKey :: fn verify_signature
        //@ ensures sig_ok: r is Ok ==> sig_ok(*self, data@, signature.0@)
        //@end
        //@extract biscuit-auth/src/crypto/mod.rs :: impl PublicKey :: fn algorithm
        //@ ensures tag: r as i32 == alg_code(*self)
        //@end
    }
    impl Signature {
        //@extract biscuit-auth/src/crypto/mod.rs :: impl Signature :: fn from_vec
        //@ ensures bytes: r.0@ == data@
        //@end
        //@extract biscuit-auth/src/crypto/mod.rs :: impl Signature :: fn to_bytes
        //@ ensures bytes: r@ == self.0@
        //@end
    }

    //@extract biscuit-auth/src/crypto/mod.rs :: fn sign_authority_block
    //@ ensures version: r is Ok ==> version == 0 || version == 1
    //@ ensures layout: r is Ok ==> r->Ok_0.0@ == sign_spec(*keypair, if version == 0 { authority_payload_v0(message@, kp_public(*next_key)) } else { authority_payload_v1(message@, kp_public(*next_key), 1u32) })
    //@end
    //@extract biscuit-auth/src/crypto/mod.rs :: fn sign_block
    //@ ensures version: r is Ok ==> version == 0 || version == 1
    //@ ensures layout: r is Ok ==> r->Ok_0.0@ == sign_spec(*keypair, if version == 0 { block_payload_v0(message@, kp_public(*next_key), ext_bytes_ref(external_signature)) } else { block_payload_v1(message@, kp_public(*next_key), ext_bytes_ref(external_signature), previous_signature.0@, 1u32) })
    //@end
    //@extract biscuit-auth/src/crypto/mod.rs :: fn verify_authority_block_signature
    //@ ensures authority_ok: r is Ok ==> authority_ok(*block, *public_key)
    //@end
    //@extract biscuit-auth/src/crypto/mod.rs :: fn verify_block_signature
    //@ ensures block_sig_ok: r is Ok ==> block_sig_ok(*block, *public_key, *previous_signature)
    //@ ensures ext_ok: r is Ok ==> ext_ok(*block, *public_key, *previous_signature, verification_mode == ThirdPartyVerificationMode::UnsafeLegacy)
    //@end
    //@extract biscuit-auth/src/crypto/mod.rs :: fn verify_external_signature
    //@ ensures ext_sig_ok: r is Ok ==> sig_ok(external_signature.public_key, ext_payload(payload@, *public_key, previous_signature.0@, version, verification_mode == ThirdPartyVerificationMode::UnsafeLegacy), external_signature.signature.0@)
    //@end
    //@extract biscuit-auth/src/crypto/mod.rs :: fn generate_authority_block_signature_payload_v0
    //@ ensures layout: r@ == authority_payload_v0(payload@, *next_key)
    //@end
    //@extract biscuit-auth/src/crypto/mod.rs :: fn generate_block_signature_payload_v0
    //@ ensures layout: r@ == block_payload_v0(payload@, *next_key, ext_bytes_ref(external_signature))
    //@end
    //@extract biscuit-auth/src/crypto/mod.rs :: fn generate_authority_block_signature_payload_v1
    //@ ensures layout: r@ == authority_payload_v1(payload@, *next_key, version)
    //@end
    //@extract biscuit-auth/src/crypto/mod.rs :: fn generate_block_signature_payload_v1
    //@ ensures layout: r@ == block_payload_v1(payload@, *next_key, ext_bytes_ref(external_signature), previous_signature.0@, version)
    //@end
    //@extract biscuit-auth/src/crypto/mod.rs :: fn generate_external_signature_payload_v0
    //@ ensures layout: r@ == external_payload_v0(payload@, *previous_key)
    //@end
    //@extract biscuit-auth/src/crypto/mod.rs :: fn generate_external_signature_payload_v1
    //@ ensures layout: r@ == external_payload_v1(payload@, previous_signature@, version)
    //@end
    //@extract biscuit-auth/src/crypto/mod.rs :: fn generate_seal_signature_payload_v0
    //@ ensures layout: r@ == seal_payload_v0(*block)
    //@end

    impl TokenNext {
        //@extract biscuit-auth/src/crypto/mod.rs :: impl TokenNext :: fn keypair
        //@ ensures sealed: self is Seal ==> r == Err::<KeyPair, error::Token>(error::Token::AlreadySealed)
        //@ ensures secret: self is Secret ==> r == Ok::<KeyPair, error::Token>(kp_of(self->Secret_0)) && r->Ok_0.wf()
        //@end
        //@extract biscuit-auth/src/crypto/mod.rs :: impl TokenNext :: fn is_sealed
        //@ ensures table: r == (self is Seal)
        //@end
    }
}
//@canary drop-prevsig :: crypto::generate_block_signature_payload_v1 :: to_verify.extend(previous_signature.to_bytes()); ==>>
//@canary lax-ed25519 :: crypto::ed25519::PublicKey::verify_signature :: .verify_strict(&data, &sig) ==>> .verify(&data, &sig)
//@canary ext-prevsig :: crypto::verify_external_signature :: generate_external_signature_payload_v1(payload, previous_signature.to_bytes(), version) ==>> generate_external_signature_payload_v1(payload, &[], version)
//@canary seal-err :: crypto::TokenNext::keypair :: Err(error::Token::AlreadySealed) ==>> Err(error::Token::InternalError)
//@canary sign-v1-as-v0 :: crypto::sign_block :: 1 => generate_block_signature_payload_v1( ==>> 7 => generate_block_signature_payload_v1(
//@canary p256-len-guard :: crypto::p256::PrivateKey::from_bytes :: if bytes.len() != 32 { ==>> if false {
//@canary p256-kp-len-guard :: crypto::p256::KeyPair::from_bytes :: if bytes.len() != 32 { ==>> if false {
//@canary proto-alg-swap :: crypto::PublicKey::from_proto :: if key.algorithm == schema::public_key::Algorithm::Ed25519 as i32 { ==>> if key.algorithm == schema::public_key::Algorithm::Secp256r1 as i32 {
//@canary-requires crypto::ed25519::KeyPair::private
//@canary-requires crypto::KeyPair::private
