// ---------------------------------------------------------------------------------------
// chain_format.rs — crate::format (format/mod.rs): the serialized container
// ---------------------------------------------------------------------------------------
pub mod prost {
    use vstd::prelude::*;
    #[verifier::external_body]
    pub struct DecodeError { _p: u8 }
    #[verifier::external_body]
    pub struct EncodeError { _p: u8 }
}

pub mod format {
    use vstd::prelude::*;
    use crate::verif_std::*;
    use super::crypto::{self, KeyPair, PrivateKey, PublicKey, TokenNext};
    use super::error;
    use super::token::Block;
    use crate::crypto::ExternalSignature;
    use crate::crypto::Signature;
    use crate::token::RootKeyProvider;
    use crate::token::DATALOG_3_3;
    use crate::spec::*;
    use self::convert::*;
    broadcast use {crate::error::qm_axioms, crate::verif_std::ax_u32_iter_max, crate::verif_std::ax_u32_iter_last};

    pub mod schema {
        use vstd::prelude::*;
        //@extract biscuit-auth/src/format/schema.rs :: struct Biscuit
        //@end
        //@extract biscuit-auth/src/format/schema.rs :: struct SignedBlock
        //@end
        //@extract biscuit-auth/src/format/schema.rs :: struct ExternalSignature
        //@end
        //@extract biscuit-auth/src/format/schema.rs :: struct PublicKey
        //@end
        //@extract biscuit-auth/src/format/schema.rs :: struct Proof
        //@end
        impl PublicKey {
            // ASSUMED (prost::Message derive): the getter of an `enumeration` field falls back to the default
            // variant for an unknown tag
            #[verifier::external_body]
            pub fn algorithm(&self) -> (r: public_key::Algorithm)
                ensures r == (if self.algorithm == 1 { public_key::Algorithm::Secp256r1 } else { public_key::Algorithm::Ed25519 })
            { unimplemented!() }
        }
        pub mod public_key {
            use vstd::prelude::*;
            //@extract biscuit-auth/src/format/schema.rs :: mod public_key :: enum Algorithm
            //@end
            // `schema::public_key::Algorithm -> builder::Algorithm` (token/builder/algorithm.rs: by name)
            impl crate::verif_std::VerifInto<crate::builder::Algorithm> for Algorithm {
                open spec fn into_req(self) -> bool { true }
                open spec fn into_spec(self) -> crate::builder::Algorithm { match self { Algorithm::Ed25519 => crate::builder::Algorithm::Ed25519, Algorithm::Secp256r1 => crate::builder::Algorithm::Secp256r1 } }
                fn verif_into(self) -> (r: crate::builder::Algorithm) { match self { Algorithm::Ed25519 => crate::builder::Algorithm::Ed25519, Algorithm::Secp256r1 => crate::builder::Algorithm::Secp256r1 } }
            }
            impl Algorithm {
                // ASSUMED (prost::Enumeration derive): the tag table
                #[verifier::external_body]
                pub fn from_i32(value: i32) -> (r: Option<Algorithm>)
                    ensures r == (if value == 0 { Some(Algorithm::Ed25519) } else if value == 1 { Some(Algorithm::Secp256r1) } else { None::<Algorithm> })
                { unimplemented!() }
            }
        }
        pub mod proof {
            use vstd::prelude::*;
            //@extract biscuit-auth/src/format/schema.rs :: mod proof :: enum Content
            //@end
        }
        //@extract biscuit-auth/src/format/schema.rs :: struct Block
        //@end
        //@extract biscuit-auth/src/format/schema.rs :: struct ThirdPartyBlockRequest
        //@end
        //@extract biscuit-auth/src/format/schema.rs :: struct ThirdPartyBlockContents
        //@end
        // stand-ins for the Datalog sub-messages of a block (opaque in the token-level units)
        #[verifier::external_body]
        pub struct FactV2 { _p: u8 }
        #[verifier::external_body]
        pub struct RuleV2 { _p: u8 }
        #[verifier::external_body]
        pub struct CheckV2 { _p: u8 }
        #[verifier::external_body]
        pub struct Scope { _p: u8 }
        // ASSUMED: derived Clone of prost messages is structural
        impl Clone for Block {
            #[verifier::external_body]
            fn clone(&self) -> (r: Self) ensures r == *self { unimplemented!() }
        }

        // ASSUMED prost contracts (prost::Message): decoding is a partial function of the bytes,
        // encoding a total function of the message, encoded_len is the length of the encoding,
        // decoding an encoding gives the message back; nothing panics.
        pub uninterp spec fn wire_decode(bytes: Seq<u8>) -> Option<Biscuit>;
        pub uninterp spec fn wire_encode(m: Biscuit) -> Seq<u8>;
        pub uninterp spec fn block_wire_encode(m: Block) -> Seq<u8>;
        pub broadcast axiom fn ax_wire_roundtrip(m: Biscuit)
            ensures #[trigger] wire_decode(wire_encode(m)) == Some(m);
        impl Biscuit {
            #[verifier::external_body]
            pub fn decode(buf: &[u8]) -> (r: Result<Biscuit, crate::prost::DecodeError>)
                ensures match wire_decode(buf@) { Some(m) => r is Ok && r->Ok_0 == m, None => r is Err }
            { unimplemented!() }
            #[verifier::external_body]
            pub fn encode(&self, buf: &mut Vec<u8>) -> (r: Result<(), crate::prost::EncodeError>)
                ensures r is Ok ==> final(buf)@ == old(buf)@ + wire_encode(*self)
            { unimplemented!() }
            #[verifier::external_body]
            pub fn encoded_len(&self) -> (r: usize)
                ensures r == wire_encode(*self).len()
            { unimplemented!() }
        }
        pub uninterp spec fn block_wire_decode(bytes: Seq<u8>) -> Option<Block>;
        pub broadcast axiom fn ax_block_wire_roundtrip(m: Block)
            ensures #[trigger] block_wire_decode(block_wire_encode(m)) == Some(m);
        impl Block {
            #[verifier::external_body]
            pub fn encode(&self, buf: &mut Vec<u8>) -> (r: Result<(), crate::prost::EncodeError>)
                ensures r is Ok ==> final(buf)@ == old(buf)@ + block_wire_encode(*self)
            { unimplemented!() }
            #[verifier::external_body]
            pub fn decode(buf: &[u8]) -> (r: Result<Block, crate::prost::DecodeError>)
                ensures match block_wire_decode(buf@) { Some(m) => r is Ok && r->Ok_0 == m, None => r is Err }
            { unimplemented!() }
        }
        pub uninterp spec fn tpc_wire_decode(bytes: Seq<u8>) -> Option<ThirdPartyBlockContents>;
        pub uninterp spec fn tpr_wire_decode(bytes: Seq<u8>) -> Option<ThirdPartyBlockRequest>;
        impl ThirdPartyBlockContents {
            #[verifier::external_body]
            pub fn decode(buf: &[u8]) -> (r: Result<ThirdPartyBlockContents, crate::prost::DecodeError>)
                ensures match tpc_wire_decode(buf@) { Some(m) => r is Ok && r->Ok_0 == m, None => r is Err }
            { unimplemented!() }
            #[verifier::external_body]
            pub fn encode(&self, buf: &mut Vec<u8>) -> (r: Result<(), crate::prost::EncodeError>)
            { unimplemented!() }
        }
        impl ThirdPartyBlockRequest {
            #[verifier::external_body]
            pub fn decode(buf: &[u8]) -> (r: Result<ThirdPartyBlockRequest, crate::prost::DecodeError>)
                ensures match tpr_wire_decode(buf@) { Some(m) => r is Ok && r->Ok_0 == m, None => r is Err }
            { unimplemented!() }
            #[verifier::external_body]
            pub fn encode(&self, buf: &mut Vec<u8>) -> (r: Result<(), crate::prost::EncodeError>)
            { unimplemented!() }
        }
    }

    pub mod convert {
        use vstd::prelude::*;
        // ASSUMED (format/convert.rs, iterator/collect code outside Verus' subset): total
        pub uninterp spec fn proto_of(b: crate::token::Block) -> super::schema::Block;
        #[verifier::external_body]
        pub fn token_block_to_proto_block(input: &crate::token::Block) -> (r: super::schema::Block)
            ensures r == proto_of(*input)
        { unimplemented!() }
        // ASSUMED (format/convert.rs): fallible, total (never panics)
        #[verifier::external_body]
        pub uninterp spec fn block_of(input: super::schema::Block, external_key: Option<crate::crypto::PublicKey>) -> Result<crate::token::Block, crate::error::Format>;
        #[verifier::external_body]
        pub fn proto_block_to_token_block(input: &super::schema::Block, external_key: Option<crate::crypto::PublicKey>)
            -> (r: Result<crate::token::Block, crate::error::Format>)
            ensures r == block_of(*input, external_key)
        { unimplemented!() }
    }

    //@extract biscuit-auth/src/format/mod.rs :: const THIRD_PARTY_SIGNATURE_VERSION
    //@end
    //@extract biscuit-auth/src/format/mod.rs :: const DATALOG_3_3_SIGNATURE_VERSION
    //@end
    //@extract biscuit-auth/src/format/mod.rs :: const NON_ED25519_SIGNATURE_VERSION
    //@end
    //@extract biscuit-auth/src/format/mod.rs :: struct SerializedBiscuit
    //@end
    //@extract biscuit-auth/src/format/mod.rs :: enum ThirdPartyVerificationMode
    //@end
    // ASSUMED: the derived PartialEq of this field-less enum is structural
    impl vstd::std_specs::cmp::PartialEqSpecImpl for ThirdPartyVerificationMode {
        open spec fn obeys_eq_spec() -> bool { true }
        open spec fn eq_spec(&self, other: &Self) -> bool { *self == *other }
    }
    impl PartialEq for ThirdPartyVerificationMode {
        #[verifier::external_body]
        fn eq(&self, other: &Self) -> bool { unimplemented!() }
    }

    impl SerializedBiscuit {
        //@extract biscuit-auth/src/format/mod.rs :: impl SerializedBiscuit :: fn from_slice
        //@ ensures chain: r is Ok ==> key_provider.choose_spec(r->Ok_0.root_key_id) is Ok && chain_valid(r->Ok_0, key_provider.choose_spec(r->Ok_0.root_key_id)->Ok_0, false)
        //@ ensures wire: r is Ok ==> schema::wire_decode(slice@) is Some && wire_rel(schema::wire_decode(slice@)->Some_0, r->Ok_0, true)
        //@end

        //@extract biscuit-auth/src/format/mod.rs :: impl SerializedBiscuit :: fn unsafe_from_slice
        //@ ensures chain: r is Ok ==> key_provider.choose_spec(r->Ok_0.root_key_id) is Ok && chain_valid(r->Ok_0, key_provider.choose_spec(r->Ok_0.root_key_id)->Ok_0, true)
        //@ ensures wire: r is Ok ==> schema::wire_decode(slice@) is Some && wire_rel(schema::wire_decode(slice@)->Some_0, r->Ok_0, false)
        //@end

        //@extract biscuit-auth/src/format/mod.rs :: impl SerializedBiscuit :: fn deserialize
        //@ ensures wire: r is Ok ==> schema::wire_decode(slice@) is Some && wire_rel(schema::wire_decode(slice@)->Some_0, r->Ok_0, verification_mode == ThirdPartyVerificationMode::PreviousSignatureHashing)
        //@ loop 0 ghost it
        //@ loop 0 invariant seq: it.seq() == data.blocks@
        //@ loop 0 invariant len: blocks@.len() == it.index@
        //@ loop 0 invariant rel: forall|i: int| 0 <= i < blocks@.len() ==> block_rel(#[trigger] data.blocks@[i], blocks@[i])
        //@ loop 0 invariant safe: verification_mode == ThirdPartyVerificationMode::PreviousSignatureHashing ==> forall|i: int| 0 <= i < it.index@ ==> ((#[trigger] data.blocks@[i]).external_signature is Some ==> data.blocks@[i].version == Some(1u32))
        //@ loop 0 invariant alg: next_key_algorithm as i32 == alg_code(if blocks@.len() == 0 { authority.next_key } else { blocks@[blocks@.len() - 1].next_key })
        //@end

        //@extract biscuit-auth/src/format/mod.rs :: impl SerializedBiscuit :: fn verify
        //@ ensures chain: r is Ok ==> chain_valid(*self, *root, false)
        //@end

        //@extract biscuit-auth/src/format/mod.rs :: impl SerializedBiscuit :: fn verify_inner
        //@ ensures chain: r is Ok ==> chain_valid(*self, *root, verification_mode == ThirdPartyVerificationMode::UnsafeLegacy)
        //@ loop 0 ghost it
        //@ loop 0 invariant key: *current_pub == key_before(*self, it.index@ as int)
        //@ loop 0 invariant sig: *previous_signature == sig_before(*self, it.index@ as int)
        //@ loop 0 invariant auth: authority_ok(self.authority, *root)
        //@ loop 0 invariant prefix: forall|i: int| 0 <= i < it.index@ ==> block_ok(#[trigger] self.blocks@[i], key_before(*self, i), sig_before(*self, i), verification_mode == ThirdPartyVerificationMode::UnsafeLegacy)
        //@end

        //@extract biscuit-auth/src/format/mod.rs :: impl SerializedBiscuit :: fn last_block
        //@ ensures last: *r == last_block(*self)
        //@end

        //@extract biscuit-auth/src/format/mod.rs :: impl SerializedBiscuit :: fn to_proto
        //@ ensures root_key_id: r.root_key_id == self.root_key_id
        //@ ensures authority: block_exact(r.authority, self.authority, false)
        //@ ensures len: r.blocks@.len() == self.blocks@.len()
        //@ ensures blocks: forall|i: int| 0 <= i < r.blocks@.len() ==> block_exact(#[trigger] r.blocks@[i], self.blocks@[i], true)
        //@ ensures proof: match self.proof { TokenNext::Seal(s) => r.proof.content == Some(schema::proof::Content::FinalSignature(vec_of(s.0@))) || (r.proof.content is Some && r.proof.content->Some_0 is FinalSignature && r.proof.content->Some_0->FinalSignature_0@ == s.0@), TokenNext::Secret(sk) => r.proof.content is Some && r.proof.content->Some_0 is NextSecret && r.proof.content->Some_0->NextSecret_0@ == sk_bytes_of(sk) }
        //@ loop 0 ghost it
        //@ loop 0 invariant len: blocks@.len() == it.index@
        //@ loop 0 invariant blocks: forall|i: int| 0 <= i < blocks@.len() ==> block_exact(#[trigger] blocks@[i], self.blocks@[i], true)
        //@ closure 0 returns schema::ExternalSignature
        //@ closure 0 ensures exact: verif_r.signature@ == external_signature.signature.0@ && pk_proto_exact(verif_r.public_key, external_signature.public_key)
        //@end

        //@extract biscuit-auth/src/format/mod.rs :: impl SerializedBiscuit :: fn serialized_size
        //@end

        //@extract biscuit-auth/src/format/mod.rs :: impl SerializedBiscuit :: fn to_vec
        //@end

        //@extract biscuit-auth/src/format/mod.rs :: impl SerializedBiscuit :: fn new
        //@ abstract_arg block_signature_version 4 :: @iter_seq
        //@ requires wf: next_keypair.wf()
        //@ ensures chain: r is Ok ==> chain_valid(r->Ok_0, kp_public(*root_keypair), false)
        //@ ensures shape: r is Ok ==> r->Ok_0.blocks@.len() == 0 && r->Ok_0.root_key_id == root_key_id && r->Ok_0.proof == TokenNext::Secret(kp_private(*next_keypair)) && r->Ok_0.authority.external_signature is None && r->Ok_0.authority.next_key == kp_public(*next_keypair)
        //@ ensures data: r is Ok ==> r->Ok_0.authority.data@ == schema::block_wire_encode(convert::proto_of(*authority))
        //@end

        //@extract biscuit-auth/src/format/mod.rs :: impl SerializedBiscuit :: fn new_inner
        //@ requires wf: next_keypair.wf()
        //@ ensures chain: r is Ok ==> chain_valid(r->Ok_0, kp_public(*root_keypair), false)
        //@ ensures shape: r is Ok ==> r->Ok_0.blocks@.len() == 0 && r->Ok_0.root_key_id == root_key_id && r->Ok_0.proof == TokenNext::Secret(kp_private(*next_keypair)) && r->Ok_0.authority.external_signature is None && r->Ok_0.authority.next_key == kp_public(*next_keypair)
        //@ ensures data: r is Ok ==> r->Ok_0.authority.data@ == schema::block_wire_encode(convert::proto_of(*authority))
        //@ ensures version: r is Ok ==> r->Ok_0.authority.version == authority_signature_version
        //@ ghost before_tail :: proof { lemma_sign_verifies(*root_keypair, authority_payload_v0(v@, kp_public(*next_keypair))); lemma_sign_verifies(*root_keypair, authority_payload_v1(v@, kp_public(*next_keypair), 1u32)); lemma_private_roundtrip(*next_keypair); }
        //@end

        //@extract biscuit-auth/src/format/mod.rs :: impl SerializedBiscuit :: fn append
        //@ abstract_arg block_signature_version 4 :: @iter_seq
        //@ requires wf: next_keypair.wf()
        //@ ensures v1_sticky: r is Ok && (self.authority.version >= 1 || exists|i: int| 0 <= i < self.blocks@.len() && (#[trigger] self.blocks@[i]).version >= 1) ==> last_block(r->Ok_0).version >= 1
        //@ ghost before "let signature = crypto" :: proof { lemma_versions_cover(verif_iter_seq, self.authority, self.blocks@); }
        //@ ensures sealed: self.proof is Seal ==> r == Err::<SerializedBiscuit, error::Token>(error::Token::AlreadySealed)
        //@ ensures frame: r is Ok ==> appended(*self, r->Ok_0) && r->Ok_0.proof == TokenNext::Secret(kp_private(*next_keypair)) && last_block(r->Ok_0).next_key == kp_public(*next_keypair) && last_block(r->Ok_0).external_signature == external_signature && (external_signature is Some ==> last_block(r->Ok_0).version == 1)
        //@ ensures data: r is Ok ==> last_block(r->Ok_0).data@ == schema::block_wire_encode(convert::proto_of(*block))
        //@ ensures chain: r is Ok && chain_tail_valid(*self, false) && ext_ok(last_block(r->Ok_0), last_block(*self).next_key, last_block(*self).signature, false) ==> chain_tail_valid(r->Ok_0, false)
        //@ ghost before_tail :: proof {
        //@|    lemma_sign_verifies(keypair, block_payload_v0(v@, kp_public(*next_keypair), ext_bytes(external_signature)));
        //@|    lemma_sign_verifies(keypair, block_payload_v1(v@, kp_public(*next_keypair), ext_bytes(external_signature), last_block(*self).signature.0@, 1u32));
        //@|    lemma_private_roundtrip(*next_keypair);
        //@|    assert(blocks@.subrange(0, self.blocks@.len() as int) =~= self.blocks@);
        //@| }
        //@end

        //@extract biscuit-auth/src/format/mod.rs :: impl SerializedBiscuit :: fn append_serialized
        //@ abstract_arg block_signature_version 4 :: @iter_seq
        //@ requires wf: next_keypair.wf()
        //@ ensures v1_sticky: r is Ok && (self.authority.version >= 1 || exists|i: int| 0 <= i < self.blocks@.len() && (#[trigger] self.blocks@[i]).version >= 1) ==> last_block(r->Ok_0).version >= 1
        //@ ghost before "let signature = crypto" :: proof { lemma_versions_cover(verif_iter_seq, self.authority, self.blocks@); }
        //@ ensures sealed: self.proof is Seal ==> r == Err::<SerializedBiscuit, error::Token>(error::Token::AlreadySealed)
        //@ ensures frame: r is Ok ==> appended(*self, r->Ok_0) && r->Ok_0.proof == TokenNext::Secret(kp_private(*next_keypair)) && last_block(r->Ok_0).next_key == kp_public(*next_keypair) && last_block(r->Ok_0).external_signature == external_signature && last_block(r->Ok_0).data@ == block@ && (external_signature is Some ==> last_block(r->Ok_0).version == 1)
        //@ ensures chain: r is Ok && chain_tail_valid(*self, false) && ext_ok(last_block(r->Ok_0), last_block(*self).next_key, last_block(*self).signature, false) ==> chain_tail_valid(r->Ok_0, false)
        //@ ghost before_tail :: proof {
        //@|    lemma_sign_verifies(keypair, block_payload_v0(block@, kp_public(*next_keypair), ext_bytes(external_signature)));
        //@|    lemma_sign_verifies(keypair, block_payload_v1(block@, kp_public(*next_keypair), ext_bytes(external_signature), last_block(*self).signature.0@, 1u32));
        //@|    lemma_private_roundtrip(*next_keypair);
        //@|    assert(blocks@.subrange(0, self.blocks@.len() as int) =~= self.blocks@);
        //@| }
        //@end

        //@extract biscuit-auth/src/format/mod.rs :: impl SerializedBiscuit :: fn seal
        //@ ensures sealed: self.proof is Seal ==> r == Err::<SerializedBiscuit, error::Token>(error::Token::AlreadySealed)
        //@ ensures frame: r is Ok ==> r->Ok_0.root_key_id == self.root_key_id && r->Ok_0.authority == self.authority && r->Ok_0.blocks@ == self.blocks@ && r->Ok_0.proof is Seal
        //@ ensures seal_sig: r is Ok ==> self.proof is Secret && r->Ok_0.proof->Seal_0.0@ == sign_spec(kp_of(self.proof->Secret_0), seal_payload_v0(last_block(*self)))
        //@ ensures chain: r is Ok && chain_tail_valid(*self, false) ==> chain_tail_valid(r->Ok_0, false)
        //@ ghost before_tail :: proof { lemma_sign_verifies(keypair, seal_payload_v0(last_block(*self))); }
        //@end
    }

    // the two orders in which the source enumerates the versions of the existing blocks (authority last / authority first):
    // for either, the maximum is at least the version of the authority block and of every block. A pipeline of another
    // shape learns nothing here, and the clause v1_sticky of its function then fails.
    pub proof fn lemma_versions_cover(vs: Seq<u32>, authority: crypto::Block, blocks: Seq<crypto::Block>)
        ensures (vs =~= Seq::new((blocks + seq![authority]).len(), |i: int| (blocks + seq![authority])[i].version)
                 || vs =~= seq![authority.version] + Seq::new(blocks.len(), |i: int| blocks[i].version))
                ==> crate::verif_std::seq_max_opt(vs) is Some && authority.version <= crate::verif_std::seq_max_opt(vs)->Some_0
                    && forall|i: int| 0 <= i < blocks.len() ==> (#[trigger] blocks[i]).version <= crate::verif_std::seq_max_opt(vs)->Some_0
    {
        let a = Seq::new((blocks + seq![authority]).len(), |i: int| (blocks + seq![authority])[i].version);
        let b = seq![authority.version] + Seq::new(blocks.len(), |i: int| blocks[i].version);
        if vs =~= a {
            crate::verif_std::lemma_seq_max_ge(vs, blocks.len() as int);
            assert forall|i: int| 0 <= i < blocks.len() implies (#[trigger] blocks[i]).version <= crate::verif_std::seq_max_opt(vs)->Some_0 by {
                crate::verif_std::lemma_seq_max_ge(vs, i);
            }
        } else if vs =~= b {
            crate::verif_std::lemma_seq_max_ge(vs, 0);
            assert forall|i: int| 0 <= i < blocks.len() implies (#[trigger] blocks[i]).version <= crate::verif_std::seq_max_opt(vs)->Some_0 by {
                crate::verif_std::lemma_seq_max_ge(vs, i + 1);
            }
        }
    }

    //@extract biscuit-auth/src/format/mod.rs :: fn block_signature_version
    //@ sub previous_blocks_sig_versions\.(max|min|last)\(\) => crate::verif_std::verif_iter_\1(previous_blocks_sig_versions)
    //@ ensures third_party: external_signature is Some ==> r == 1
    //@ ensures datalog33: block_version is Some && block_version->Some_0 >= 6 ==> r == 1
    //@ ensures non_ed25519: !(block_keypair is Ed25519 && next_keypair is Ed25519) ==> r == 1
    //@ ensures otherwise: external_signature is None && !(block_version is Some && block_version->Some_0 >= 6) && block_keypair is Ed25519 && next_keypair is Ed25519 ==> r == (match iter_max_spec(previous_blocks_sig_versions) { Some(m) => m, None => 0u32 })
    //@end
}
//@canary chain-prev :: format::SerializedBiscuit::verify_inner :: previous_signature = &block.signature; ==>>
//@canary proof-skip :: format::SerializedBiscuit::verify_inner :: if current_pub != &private.public() { ==>> if false {
//@canary authority-ext :: format::SerializedBiscuit::deserialize :: if data.authority.external_signature.is_some() { ==>> if false {
//@canary tp-version-gate :: format::SerializedBiscuit::deserialize :: && block.version != Some(THIRD_PARTY_SIGNATURE_VERSION) ==>> && false
//@canary append-prev :: format::SerializedBiscuit::append :: &self.last_block().signature, ==>> &self.authority.signature,
//@canary seal-drops-blocks :: format::SerializedBiscuit::seal :: blocks: self.blocks.clone(), ==>> blocks: Vec::new(),
//@canary append-versions-skip-authority :: format::SerializedBiscuit::append :: .chain([&self.authority]) ==>> 
//@canary sigversion-third-party :: format::block_signature_version :: if external_signature.is_some() { ==>> if false {
//@canary sigversion-no-max :: format::block_signature_version :: previous_blocks_sig_versions.max().unwrap_or(0) ==>> previous_blocks_sig_versions.max().map(|_| 0).unwrap_or(0)
//@canary-requires format::SerializedBiscuit::new_inner
//@canary-requires format::SerializedBiscuit::append
//@canary-requires format::SerializedBiscuit::append_serialized
