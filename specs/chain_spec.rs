// ---------------------------------------------------------------------------------------
// chain_spec.rs — specification vocabulary of the block chain. The payload layouts are
// transcribed from the Biscuit specification (SPECIFICATIONS.md, "Signature payloads"),
// not from the code; chain_valid is the first sentence of C01 as a formula.
// ---------------------------------------------------------------------------------------
pub mod spec {
    use vstd::prelude::*;
    use crate::verif_std::*;
    use crate::crypto::*;
    use crate::format::SerializedBiscuit;

    pub open spec fn alg_code(k: PublicKey) -> i32 {
        match k { PublicKey::Ed25519(_) => 0i32, PublicKey::P256(_) => 1i32 }
    }
    pub open spec fn pk_bytes(k: PublicKey) -> Seq<u8> {
        match k { PublicKey::Ed25519(k) => k.spec_bytes(), PublicKey::P256(k) => k.spec_bytes() }
    }
    // THE meaning of "signature `sig` by key `k` over `msg` verifies"
    pub open spec fn sig_ok(k: PublicKey, msg: Seq<u8>, sig: Seq<u8>) -> bool {
        match k { PublicKey::Ed25519(k) => k.spec_verify(msg, sig), PublicKey::P256(k) => k.spec_verify(msg, sig) }
    }
    pub open spec fn kp_of(sk: PrivateKey) -> KeyPair {
        match sk { PrivateKey::Ed25519(k) => KeyPair::Ed25519(k.spec_keypair()), PrivateKey::P256(k) => KeyPair::P256(k.spec_keypair()) }
    }
    pub open spec fn kp_public(kp: KeyPair) -> PublicKey {
        match kp { KeyPair::Ed25519(k) => PublicKey::Ed25519(k.spec_public()), KeyPair::P256(k) => PublicKey::P256(k.spec_public()) }
    }
    pub open spec fn kp_private(kp: KeyPair) -> PrivateKey {
        match kp { KeyPair::Ed25519(k) => PrivateKey::Ed25519(k.spec_private()), KeyPair::P256(k) => PrivateKey::P256(k.spec_private()) }
    }
    pub open spec fn pk_of(sk: PrivateKey) -> PublicKey { kp_public(kp_of(sk)) }
    pub open spec fn sign_spec(kp: KeyPair, msg: Seq<u8>) -> Seq<u8> {
        match kp { KeyPair::Ed25519(k) => k.spec_sign(msg), KeyPair::P256(k) => k.spec_sign(msg) }
    }
    // completeness of the (ideal) signature scheme, from the dependency axioms
    pub proof fn lemma_sign_verifies(kp: KeyPair, msg: Seq<u8>)
        ensures sig_ok(kp_public(kp), msg, sign_spec(kp, msg))
    {
        match kp {
            KeyPair::Ed25519(k) => { k.lemma_sign_verifies(msg); }
            KeyPair::P256(k) => { k.lemma_sign_verifies(msg); }
        }
    }
    pub proof fn lemma_private_roundtrip(kp: KeyPair)
        requires kp.wf()
        ensures kp_of(kp_private(kp)) == kp, pk_of(kp_private(kp)) == kp_public(kp)
    {
        match kp {
            KeyPair::Ed25519(k) => { k.lemma_private_roundtrip(); }
            KeyPair::P256(k) => { k.lemma_private_roundtrip(); }
        }
    }

    // ---- domain separation tags (specification text)
    pub open spec fn TAG_BLOCK_VERSION() -> Seq<u8> { seq![0u8, 66, 76, 79, 67, 75, 0, 0, 86, 69, 82, 83, 73, 79, 78, 0] }   // "\0BLOCK\0\0VERSION\0"
    pub open spec fn TAG_PAYLOAD() -> Seq<u8> { seq![0u8, 80, 65, 89, 76, 79, 65, 68, 0] }                                      // "\0PAYLOAD\0"
    pub open spec fn TAG_ALGORITHM() -> Seq<u8> { seq![0u8, 65, 76, 71, 79, 82, 73, 84, 72, 77, 0] }                            // "\0ALGORITHM\0"
    pub open spec fn TAG_NEXTKEY() -> Seq<u8> { seq![0u8, 78, 69, 88, 84, 75, 69, 89, 0] }                                      // "\0NEXTKEY\0"
    pub open spec fn TAG_PREVSIG() -> Seq<u8> { seq![0u8, 80, 82, 69, 86, 83, 73, 71, 0] }                                      // "\0PREVSIG\0"
    pub open spec fn TAG_EXTERNALSIG() -> Seq<u8> { seq![0u8, 69, 88, 84, 69, 82, 78, 65, 76, 83, 73, 71, 0] }                  // "\0EXTERNALSIG\0"
    pub open spec fn TAG_EXTERNAL_VERSION() -> Seq<u8> { seq![0u8, 69, 88, 84, 69, 82, 78, 65, 76, 0, 0, 86, 69, 82, 83, 73, 79, 78, 0] } // "\0EXTERNAL\0\0VERSION\0"

    // ---- payload layouts
    pub open spec fn key_suffix(k: PublicKey) -> Seq<u8> { lei32(alg_code(k)) + pk_bytes(k) }
    pub open spec fn authority_payload_v0(data: Seq<u8>, next: PublicKey) -> Seq<u8> { data + key_suffix(next) }
    pub open spec fn block_payload_v0(data: Seq<u8>, next: PublicKey, ext: Option<Seq<u8>>) -> Seq<u8> {
        match ext { None => data + key_suffix(next), Some(e) => data + e + key_suffix(next) }
    }
    pub open spec fn authority_payload_v1(data: Seq<u8>, next: PublicKey, version: u32) -> Seq<u8> {
        TAG_BLOCK_VERSION() + le32(version) + TAG_PAYLOAD() + data + TAG_ALGORITHM() + lei32(alg_code(next))
            + TAG_NEXTKEY() + pk_bytes(next)
    }
    pub open spec fn block_payload_v1(data: Seq<u8>, next: PublicKey, ext: Option<Seq<u8>>, prev_sig: Seq<u8>, version: u32) -> Seq<u8> {
        let base = authority_payload_v1(data, next, version) + TAG_PREVSIG() + prev_sig;
        match ext { None => base, Some(e) => base + TAG_EXTERNALSIG() + e }
    }
    pub open spec fn external_payload_v0(data: Seq<u8>, prev_key: PublicKey) -> Seq<u8> { data + key_suffix(prev_key) }
    pub open spec fn external_payload_v1(data: Seq<u8>, prev_sig: Seq<u8>, version: u32) -> Seq<u8> {
        TAG_EXTERNAL_VERSION() + le32(version) + TAG_PAYLOAD() + data + TAG_PREVSIG() + prev_sig
    }
    pub open spec fn seal_payload_v0(b: Block) -> Seq<u8> { b.data@ + key_suffix(b.next_key) + b.signature.0@ }

    pub open spec fn ext_bytes(e: Option<ExternalSignature>) -> Option<Seq<u8>> {
        match e { None => None, Some(e) => Some(e.signature.0@) }
    }
    pub open spec fn ext_bytes_ref(e: Option<&ExternalSignature>) -> Option<Seq<u8>> {
        match e { None => None, Some(e) => Some(e.signature.0@) }
    }

    // ---- per-block validity
    pub open spec fn authority_ok(b: Block, root: PublicKey) -> bool {
        if b.version == 0 {
            sig_ok(root, block_payload_v0(b.data@, b.next_key, ext_bytes(b.external_signature)), b.signature.0@)
        } else if b.version == 1 {
            sig_ok(root, authority_payload_v1(b.data@, b.next_key, 1u32), b.signature.0@)
        } else { false }
    }
    pub open spec fn block_sig_ok(b: Block, k: PublicKey, prev: Signature) -> bool {
        if b.version == 0 {
            sig_ok(k, block_payload_v0(b.data@, b.next_key, ext_bytes(b.external_signature)), b.signature.0@)
        } else if b.version == 1 {
            sig_ok(k, block_payload_v1(b.data@, b.next_key, ext_bytes(b.external_signature), prev.0@, 1u32), b.signature.0@)
        } else { false }
    }
    pub open spec fn ext_payload(data: Seq<u8>, k: PublicKey, prev: Seq<u8>, version: u32, legacy: bool) -> Seq<u8> {
        if legacy { external_payload_v0(data, k) } else { external_payload_v1(data, prev, version) }
    }
    pub open spec fn ext_ok(b: Block, k: PublicKey, prev: Signature, legacy: bool) -> bool {
        match b.external_signature {
            None => true,
            Some(e) => sig_ok(e.public_key, ext_payload(b.data@, k, prev.0@, b.version, legacy), e.signature.0@),
        }
    }
    // a non-authority block: signed by `k` (the previous block's next key) over the layout of
    // its version, which for v1 covers `prev` (the previous block's signature) and the external
    // signature; a third-party block additionally carries a valid external signature over its
    // payload and `prev` (legacy mode: over the previous key, only for version-0 blocks)
    pub open spec fn block_ok(b: Block, k: PublicKey, prev: Signature, legacy_mode: bool) -> bool {
        block_sig_ok(b, k, prev) && ext_ok(b, k, prev, legacy_mode && b.version == 0)
    }

    // ---- the chain
    pub open spec fn key_before(t: SerializedBiscuit, i: int) -> PublicKey {
        if i == 0 { t.authority.next_key } else { t.blocks@[i - 1].next_key }
    }
    pub open spec fn sig_before(t: SerializedBiscuit, i: int) -> Signature {
        if i == 0 { t.authority.signature } else { t.blocks@[i - 1].signature }
    }
    pub open spec fn last_block(t: SerializedBiscuit) -> Block {
        if t.blocks@.len() == 0 { t.authority } else { t.blocks@[t.blocks@.len() - 1] }
    }
    pub open spec fn proof_ok(t: SerializedBiscuit) -> bool {
        match t.proof {
            TokenNext::Secret(sk) => pk_of(sk) == last_block(t).next_key,
            TokenNext::Seal(s) => sig_ok(last_block(t).next_key, seal_payload_v0(last_block(t)), s.0@),
        }
    }
    // everything in chain_valid that does not depend on the root key
    pub open spec fn chain_tail_valid(t: SerializedBiscuit, legacy_mode: bool) -> bool {
        &&& forall|i: int| 0 <= i < t.blocks@.len() ==>
                block_ok(#[trigger] t.blocks@[i], key_before(t, i), sig_before(t, i), legacy_mode)
        &&& proof_ok(t)
    }
    pub open spec fn chain_valid(t: SerializedBiscuit, root: PublicKey, legacy_mode: bool) -> bool {
        authority_ok(t.authority, root) && chain_tail_valid(t, legacy_mode)
    }

    // ---- wire form <-> container (what deserialize computes, as a relation)
    use crate::format::schema;
    pub open spec fn sk_bytes_of(sk: PrivateKey) -> Seq<u8> {
        match sk { PrivateKey::Ed25519(k) => k.spec_bytes(), PrivateKey::P256(k) => k.spec_bytes() }
    }
    pub open spec fn sk_alg_code(sk: PrivateKey) -> i32 {
        match sk { PrivateKey::Ed25519(_) => 0i32, PrivateKey::P256(_) => 1i32 }
    }
    // `bytes` is an accepted encoding of key `k` (ed25519: the 32 bytes; secp256r1: any SEC1 form)
    pub open spec fn pk_decodes(k: PublicKey, bytes: Seq<u8>) -> bool {
        match k { PublicKey::Ed25519(k) => k.spec_decodes(bytes), PublicKey::P256(k) => k.spec_decodes(bytes) }
    }
    pub open spec fn pk_proto_rel(p: schema::PublicKey, k: PublicKey) -> bool {
        p.algorithm == alg_code(k) && pk_decodes(k, p.key@)
    }
    pub open spec fn ext_rel(p: Option<schema::ExternalSignature>, e: Option<ExternalSignature>) -> bool {
        match (p, e) {
            (None, None) => true,
            (Some(p), Some(e)) => p.signature@ == e.signature.0@ && pk_proto_rel(p.public_key, e.public_key),
            _ => false,
        }
    }
    pub open spec fn version_of(v: Option<u32>) -> u32 { match v { Some(v) => v, None => 0u32 } }
    pub open spec fn block_rel(p: schema::SignedBlock, b: Block) -> bool {
        &&& b.data@ == p.block@
        &&& pk_proto_rel(p.next_key, b.next_key)
        &&& b.signature.0@ == p.signature@
        &&& ext_rel(p.external_signature, b.external_signature)
        &&& b.version == version_of(p.version)
    }
    pub open spec fn proof_rel(p: schema::Proof, t: TokenNext, last_key: PublicKey) -> bool {
        match p.content {
            None => false,
            Some(schema::proof::Content::NextSecret(v)) =>
                t is Secret && sk_bytes_of(t->Secret_0) == v@ && sk_alg_code(t->Secret_0) == alg_code(last_key),
            Some(schema::proof::Content::FinalSignature(v)) => t is Seal && t->Seal_0.0@ == v@,
        }
    }
    // safe_mode: a block carrying an external signature must declare signature version 1
    pub open spec fn wire_rel(d: schema::Biscuit, t: SerializedBiscuit, safe_mode: bool) -> bool {
        &&& d.root_key_id == t.root_key_id
        &&& d.authority.external_signature is None
        &&& block_rel(d.authority, t.authority)
        &&& d.blocks@.len() == t.blocks@.len()
        &&& forall|i: int| 0 <= i < d.blocks@.len() ==> block_rel(#[trigger] d.blocks@[i], t.blocks@[i])
        &&& safe_mode ==> forall|i: int| 0 <= i < d.blocks@.len() ==>
                ((#[trigger] d.blocks@[i]).external_signature is Some ==> d.blocks@[i].version == Some(1u32))
        &&& proof_rel(d.proof, t.proof, last_block(t).next_key)
    }

    // to_proto: exact field map (the key is written in its canonical encoding; the version field
    // is absent exactly when the version is 0)
    pub open spec fn pk_proto_exact(p: schema::PublicKey, k: PublicKey) -> bool {
        p.algorithm == alg_code(k) && p.key@ == pk_bytes(k)
    }
    pub open spec fn ext_exact(p: Option<schema::ExternalSignature>, e: Option<ExternalSignature>) -> bool {
        match (p, e) {
            (None, None) => true,
            (Some(p), Some(e)) => p.signature@ == e.signature.0@ && pk_proto_exact(p.public_key, e.public_key),
            _ => false,
        }
    }
    pub open spec fn block_exact(p: schema::SignedBlock, b: Block, with_ext: bool) -> bool {
        &&& p.block@ == b.data@
        &&& pk_proto_exact(p.next_key, b.next_key)
        &&& p.signature@ == b.signature.0@
        &&& if with_ext { ext_exact(p.external_signature, b.external_signature) } else { p.external_signature is None }
        &&& p.version == (if b.version > 0 { Some(b.version) } else { None::<u32> })
    }
    // t2 is t1 with exactly one block added at the end; nothing else changes
    pub open spec fn appended(t1: SerializedBiscuit, t2: SerializedBiscuit) -> bool {
        &&& t2.root_key_id == t1.root_key_id
        &&& t2.authority == t1.authority
        &&& t2.blocks@.len() == t1.blocks@.len() + 1
        &&& t2.blocks@.subrange(0, t1.blocks@.len() as int) == t1.blocks@
    }
}
