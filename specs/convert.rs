// =======================================================================================
// Unit `convert` — format/convert.rs::proto_block_to_token_block (C16 load-time gates, C09)
// Feature detection (schema_body.rs) enters as contracts, proved in unit `schema`.
// =======================================================================================
#![feature(allocator_api)]
#![allow(unused)]
use vstd::prelude::*;
verus! {
//@include std_prelude.rs
//@include error_mod.rs
//@include-contracts schema_body.rs

pub mod crypto {
    use vstd::prelude::*;
    // stand-in for crypto::PublicKey (opaque here; unit chain has the real one)
    #[verifier::external_body]
    pub struct PublicKey { _p: u8 }
    impl Clone for PublicKey { #[verifier::external_body] fn clone(&self) -> (r: Self) ensures r == *self { unimplemented!() } }
    impl Copy for PublicKey {}
    impl PublicKey {
        // ASSUMED here (proved in unit chain): fallible, total
        #[verifier::external_body]
        pub fn from_proto(key: &crate::format::schema::PublicKey) -> (r: Result<PublicKey, crate::error::Format>) { unimplemented!() }
    }
}
pub mod token2 {
    use vstd::prelude::*;
    use crate::crypto::PublicKey;
    use crate::datalog::{Check, Fact, Rule};
    use crate::token::Scope;
    // stand-ins for datalog::SymbolTable / token::public_keys::PublicKeys (opaque; ASSUMED total)
    pub struct PublicKeys { pub keys: Vec<PublicKey> }
    impl PublicKeys {
        #[verifier::external_body]
        pub fn new() -> Self { unimplemented!() }
        #[verifier::external_body]
        pub fn insert_fallible(&mut self, k: &PublicKey) -> Result<u64, crate::error::Format> { unimplemented!() }
    }
    #[verifier::external_body]
    pub struct SymbolTable { _p: u8 }
    impl SymbolTable {
        #[verifier::external_body]
        pub fn from_symbols_and_public_keys(symbols: Vec<String>, public_keys: Vec<PublicKey>) -> Result<Self, crate::error::Format> { unimplemented!() }
    }
    //@extract biscuit-auth/src/token/block.rs :: struct Block
    //@end
}
pub mod format {
    pub mod schema {
        use vstd::prelude::*;
        //@extract biscuit-auth/src/format/schema.rs :: struct Block
        //@end
        //@extract biscuit-auth/src/format/schema.rs :: struct CheckV2
        //@end
        //@extract biscuit-auth/src/format/schema.rs :: struct PublicKey
        //@end
        pub mod check_v2 {
            use vstd::prelude::*;
            //@extract biscuit-auth/src/format/schema.rs :: mod check_v2 :: enum Kind
            //@end
        }
        #[verifier::external_body] pub struct FactV2 { _p: u8 }
        #[verifier::external_body] pub struct RuleV2 { _p: u8 }
        #[verifier::external_body] pub struct Scope { _p: u8 }
    }
    pub mod convert {
        use vstd::prelude::*;
        use crate::verif_std::*;
        use super::schema;
        use crate::crypto::PublicKey;
        use crate::datalog::*;
        use crate::error;
        use crate::token2::PublicKeys;
        use crate::token::Scope;
        use crate::token2::Block;
        use crate::token2::SymbolTable;
        use crate::token::{DATALOG_3_1, DATALOG_3_2, DATALOG_3_3, MAX_SCHEMA_VERSION, MIN_SCHEMA_VERSION};
        use crate::vspec::*;
        broadcast use crate::error::qm_axioms;
        pub mod v2 {
            use vstd::prelude::*;
            use super::schema;
            use crate::datalog::*;
            use crate::error;
            use crate::token::Scope;
            // ASSUMED (format/convert.rs mod v2: recursive term conversion, iterator code): fallible, total
            #[verifier::external_body]
            pub fn proto_fact_to_token_fact(input: &schema::FactV2) -> Result<Fact, error::Format> { unimplemented!() }
            #[verifier::external_body]
            pub fn proto_rule_to_token_rule(input: &schema::RuleV2, version: u32) -> Result<(Rule, Vec<Scope>), error::Format> { unimplemented!() }
            #[verifier::external_body]
            pub fn proto_check_to_token_check(input: &schema::CheckV2, version: u32) -> (r: Result<Check, error::Format>)
                ensures r is Ok ==> check_kind_rel(input.kind, r->Ok_0.kind)
            { unimplemented!() }
            #[verifier::external_body]
            pub fn proto_scope_to_token_scope(input: &schema::Scope) -> Result<Scope, error::Format> { unimplemented!() }
            pub open spec fn check_kind_rel(k: Option<i32>, c: crate::builder::CheckKind) -> bool {
                match c { crate::builder::CheckKind::One => k is None || k == Some(0i32),
                          crate::builder::CheckKind::All => k == Some(1i32),
                          crate::builder::CheckKind::Reject => k == Some(2i32) }
            }
            // `input.scope.iter().map(proto_scope_to_token_scope).collect::<Result<Vec<_>, _>>()`
            #[verifier::external_body]
            pub fn verif_collect_scopes(input: &Vec<schema::Scope>) -> Result<Vec<Scope>, error::Format> { unimplemented!() }
        }
        use self::v2::*;

        //@extract biscuit-auth/src/format/convert.rs :: fn proto_block_to_token_block
        //@ attr #[verifier::loop_isolation(false)]
        //@ sub input\.scope\.iter\(\)\.map\(proto_scope_to_token_scope\)\.collect\(\) => v2::verif_collect_scopes(&input.scope)
        //@ sub \(MIN_SCHEMA_VERSION\.\.=MAX_SCHEMA_VERSION\)\.contains\(&version\) => (MIN_SCHEMA_VERSION <= version && version <= MAX_SCHEMA_VERSION)
        //@ ensures range: r is Ok ==> 3 <= r->Ok_0.version <= 6 && r->Ok_0.version == (match input.version { Some(v) => v, None => 0u32 })
        //@ ensures third_party: r is Ok && external_key is Some ==> r->Ok_0.version >= 5
        //@ ensures check_kinds: r is Ok ==> forall|i: int| 0 <= i < input.checks_v2@.len() ==> ((#[trigger] input.checks_v2@[i]).kind is Some ==> r->Ok_0.version >= 4) && (input.checks_v2@[i].kind == Some(2i32) ==> r->Ok_0.version >= 6)
        //@ ensures features: r is Ok ==> r->Ok_0.version >= version_spec(SchemaVersion { contains_scopes: input.scope@.len() > 0 || block_has_scopes(r->Ok_0.rules@, r->Ok_0.checks@, Seq::<Scope>::empty()), contains_v3_1: block_v31(r->Ok_0.rules@, r->Ok_0.checks@), contains_check_all: (exists|i: int| 0 <= i < r->Ok_0.checks@.len() && (#[trigger] r->Ok_0.checks@[i]).kind == crate::builder::CheckKind::All), contains_v3_3: block_v33(r->Ok_0.facts@, r->Ok_0.rules@, r->Ok_0.checks@) })
        //@ loop 4 ghost it4
        //@ loop 4 invariant len: scopes@.len() == it4.index@
        //@ loop 2 ghost it
        //@ loop 2 invariant gates: forall|i: int| 0 <= i < it.index@ ==> ((#[trigger] input.checks_v2@[i]).kind is Some ==> version >= 4) && (input.checks_v2@[i].kind == Some(2i32) ==> version >= 6)
        //@end
    }
}
//@canary version-default :: format::convert::proto_block_to_token_block :: let version = input.version.unwrap_or(0); ==>> let version = input.version.unwrap_or(3);
//@canary third-party-min-version :: format::convert::proto_block_to_token_block :: if version < DATALOG_3_2 && external_key.is_some() { ==>> if version < DATALOG_3_1 && external_key.is_some() {
//@canary compat-skipped :: format::convert::proto_block_to_token_block :: detected_schema_version.check_compatibility(version)?; ==>> let _ = detected_schema_version.check_compatibility(version);
//@canary reject-gate :: format::convert::proto_block_to_token_block :: } else if version < DATALOG_3_3 && c.kind == Some(schema::check_v2::Kind::Reject as i32) ==>> } else if version < DATALOG_3_1 && c.kind == Some(schema::check_v2::Kind::Reject as i32)
} // verus!
fn main() {}