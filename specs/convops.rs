// =======================================================================================
// Unit `convops` — format/convert.rs v2 (C12, C09): the operator tables between the Datalog operators and the
// protobuf operation messages, in both directions.
//   token_op_to_proto_op : writes exactly (kind of the same name, extern-function name iff Ffi)
//   proto_op_to_token_op : accepts exactly the (kind, ffi name) pairs of that table and returns the operator of the
//                          same name; everything else is a deserialization error; never panics
// Terms (proto_id_to_token_term / token_term_to_proto_id) and the recursion into closure bodies are oracles (A5).
// =======================================================================================
#![feature(allocator_api)]
#![allow(unused)]
use vstd::prelude::*;
verus! {
//@include std_prelude.rs
//@include error_mod.rs

pub mod datalog {
    use vstd::prelude::*;
    pub type SymbolIndex = u64;
    #[verifier::external_body] pub struct Term { _p: u8 }
    //@extract biscuit-auth/src/datalog/expression.rs :: enum Op
    //@end
    //@extract biscuit-auth/src/datalog/expression.rs :: enum Unary
    //@end
    //@extract biscuit-auth/src/datalog/expression.rs :: enum Binary
    //@end
}
pub mod format {
    pub mod schema {
        use vstd::prelude::*;
        #[verifier::external_body] pub struct TermV2 { _p: u8 }
        //@extract biscuit-auth/src/format/schema.rs :: struct Op
        //@end
        pub mod op {
            use vstd::prelude::*;
            //@extract biscuit-auth/src/format/schema.rs :: mod op :: enum Content
            //@end
        }
        //@extract biscuit-auth/src/format/schema.rs :: struct OpUnary
        //@end
        //@extract biscuit-auth/src/format/schema.rs :: struct OpBinary
        //@end
        //@extract biscuit-auth/src/format/schema.rs :: struct OpClosure
        //@end
        pub mod op_unary {
            use vstd::prelude::*;
            //@extract biscuit-auth/src/format/schema.rs :: mod op_unary :: enum Kind
            //@end
            impl Kind {
                // ASSUMED (prost-derived): the variant whose discriminant is the value, None otherwise
                #[verifier::external_body]
                pub fn from_i32(v: i32) -> (r: Option<Kind>) ensures r == crate::cspec::un_of_code(v) { unimplemented!() }
            }
        }
        pub mod op_binary {
            use vstd::prelude::*;
            //@extract biscuit-auth/src/format/schema.rs :: mod op_binary :: enum Kind
            //@end
            impl Kind {
                #[verifier::external_body]
                pub fn from_i32(v: i32) -> (r: Option<Kind>) ensures r == crate::cspec::bin_of_code(v) { unimplemented!() }
            }
        }
    }
    pub mod convert {
        use vstd::prelude::*;
        use crate::verif_std::*;
        use super::schema;
        use crate::datalog::*;
        use crate::error;
        use crate::cspec::*;
        broadcast use crate::error::qm_axioms;
        // ORACLES (rule A5): term conversion; the recursion into a closure body
        pub uninterp spec fn term_to(t: Term) -> schema::TermV2;
        pub uninterp spec fn term_from(t: schema::TermV2) -> Result<Term, error::Format>;
        pub uninterp spec fn ops_to(ops: Seq<Op>) -> Seq<schema::Op>;
        pub uninterp spec fn ops_from(ops: Seq<schema::Op>) -> Result<Vec<Op>, error::Format>;
        #[verifier::external_body]
        pub fn token_term_to_proto_id(t: &Term) -> (r: schema::TermV2) ensures r == term_to(*t) { unimplemented!() }
        #[verifier::external_body]
        pub fn proto_id_to_token_term(t: &schema::TermV2) -> (r: Result<Term, error::Format>) ensures r == term_from(*t) { unimplemented!() }
        #[verifier::external_body]
        pub fn verif_ops_to(ops: &Vec<Op>) -> (r: Vec<schema::Op>) ensures r@ == ops_to(ops@) { unimplemented!() }
        #[verifier::external_body]
        pub fn verif_ops_from(ops: &Vec<schema::Op>) -> (r: Result<Vec<Op>, error::Format>) ensures r == ops_from(ops@) { unimplemented!() }

        //@extract biscuit-auth/src/format/convert.rs :: mod v2 :: fn token_op_to_proto_op
        //@ sub ops\.iter\(\)\.map\(token_op_to_proto_op\)\.collect\(\) => verif_ops_to(ops)
        //@ sub name\.to_owned\(\) => *name
        //@ ensures some: r.content is Some
        //@ ensures unary: op is Unary ==> r.content->Some_0 == schema::op::Content::Unary(schema::OpUnary { kind: un_code(un_kind(op->Unary_0)), ffi_name: un_ffi(op->Unary_0) })
        //@ ensures binary: op is Binary ==> r.content->Some_0 == schema::op::Content::Binary(schema::OpBinary { kind: bin_code(bin_kind(op->Binary_0)), ffi_name: bin_ffi(op->Binary_0) })
        //@ ensures value: op is Value ==> r.content->Some_0 == schema::op::Content::Value(term_to(op->Value_0))
        //@ ensures closure: op is Closure ==> r.content->Some_0 is Closure && r.content->Some_0->Closure_0.params@ == op->Closure_0@ && r.content->Some_0->Closure_0.ops@ == ops_to(op->Closure_1@)
        //@end

        //@extract biscuit-auth/src/format/convert.rs :: mod v2 :: fn proto_op_to_token_op
        //@ sub op_closure\s*\.ops\s*\.iter\(\)\s*\.map\(proto_op_to_token_op\)\s*\.collect::<Result<_, _>>\(\)\? => verif_ops_from(&op_closure.ops)?
        //@ ensures unary_table: op.content is Some && op.content->Some_0 is Unary ==> (match un_of_code(op.content->Some_0->Unary_0.kind) { Some(k) => (match un_of(k, op.content->Some_0->Unary_0.ffi_name) { Some(u) => r == Ok::<Op, error::Format>(Op::Unary(u)), None => r is Err }), None => r is Err })
        //@ ensures binary_table: op.content is Some && op.content->Some_0 is Binary ==> (match bin_of_code(op.content->Some_0->Binary_0.kind) { Some(k) => (match bin_of(k, op.content->Some_0->Binary_0.ffi_name) { Some(b) => r == Ok::<Op, error::Format>(Op::Binary(b)), None => r is Err }), None => r is Err })
        //@ ensures empty: op.content is None ==> r is Err
        //@ ensures value: op.content is Some && op.content->Some_0 is Value ==> (match term_from(op.content->Some_0->Value_0) { Ok(t) => r == Ok::<Op, error::Format>(Op::Value(t)), Err(e) => r is Err })
        //@end
    }
}
pub mod cspec {
    use vstd::prelude::*;
    use crate::datalog::{Unary, Binary};
    use crate::format::schema::{op_unary, op_binary, OpUnary, OpBinary};
    // THE table: a Datalog operator is written as the protobuf kind OF THE SAME NAME (schema.proto), extern functions
    // carry their name in ffi_name and nothing else does
    pub open spec fn un_kind(u: Unary) -> op_unary::Kind {
        match u { Unary::Negate => op_unary::Kind::Negate, Unary::Parens => op_unary::Kind::Parens, Unary::Length => op_unary::Kind::Length,
                  Unary::TypeOf => op_unary::Kind::TypeOf, Unary::Ffi(_) => op_unary::Kind::Ffi }
    }
    pub open spec fn un_ffi(u: Unary) -> Option<u64> { match u { Unary::Ffi(n) => Some(n), _ => None } }
    pub open spec fn bin_kind(b: Binary) -> op_binary::Kind {
        match b {
            Binary::LessThan => op_binary::Kind::LessThan, Binary::GreaterThan => op_binary::Kind::GreaterThan, Binary::LessOrEqual => op_binary::Kind::LessOrEqual,
            Binary::GreaterOrEqual => op_binary::Kind::GreaterOrEqual, Binary::Equal => op_binary::Kind::Equal, Binary::Contains => op_binary::Kind::Contains,
            Binary::Prefix => op_binary::Kind::Prefix, Binary::Suffix => op_binary::Kind::Suffix, Binary::Regex => op_binary::Kind::Regex, Binary::Add => op_binary::Kind::Add,
            Binary::Sub => op_binary::Kind::Sub, Binary::Mul => op_binary::Kind::Mul, Binary::Div => op_binary::Kind::Div, Binary::And => op_binary::Kind::And, Binary::Or => op_binary::Kind::Or,
            Binary::Intersection => op_binary::Kind::Intersection, Binary::Union => op_binary::Kind::Union, Binary::BitwiseAnd => op_binary::Kind::BitwiseAnd,
            Binary::BitwiseOr => op_binary::Kind::BitwiseOr, Binary::BitwiseXor => op_binary::Kind::BitwiseXor, Binary::NotEqual => op_binary::Kind::NotEqual,
            Binary::HeterogeneousEqual => op_binary::Kind::HeterogeneousEqual, Binary::HeterogeneousNotEqual => op_binary::Kind::HeterogeneousNotEqual,
            Binary::LazyAnd => op_binary::Kind::LazyAnd, Binary::LazyOr => op_binary::Kind::LazyOr, Binary::All => op_binary::Kind::All, Binary::Any => op_binary::Kind::Any,
            Binary::Get => op_binary::Kind::Get, Binary::Ffi(_) => op_binary::Kind::Ffi,
        }
    }
    pub open spec fn bin_ffi(b: Binary) -> Option<u64> { match b { Binary::Ffi(n) => Some(n), _ => None } }
    // wire codes: `Kind as i32` and prost's from_i32 are inverse on the declared variants (ASSUMED, prost)
    pub open spec fn un_code(k: op_unary::Kind) -> i32 { k as i32 }
    pub open spec fn bin_code(k: op_binary::Kind) -> i32 { k as i32 }
    pub uninterp spec fn un_of_code(v: i32) -> Option<op_unary::Kind>;
    pub uninterp spec fn bin_of_code(v: i32) -> Option<op_binary::Kind>;
    pub broadcast axiom fn ax_un_code(k: op_unary::Kind) ensures un_of_code(#[trigger] un_code(k)) == Some(k);
    pub broadcast axiom fn ax_bin_code(k: op_binary::Kind) ensures bin_of_code(#[trigger] bin_code(k)) == Some(k);
    // the reader's table: which (kind, ffi name) pairs are operators, and which
    pub open spec fn un_of(k: op_unary::Kind, ffi: Option<u64>) -> Option<Unary> {
        match (k, ffi) {
            (op_unary::Kind::Negate, None) => Some(Unary::Negate), (op_unary::Kind::Parens, None) => Some(Unary::Parens), (op_unary::Kind::Length, None) => Some(Unary::Length),
            (op_unary::Kind::TypeOf, None) => Some(Unary::TypeOf), (op_unary::Kind::Ffi, Some(n)) => Some(Unary::Ffi(n)), _ => None,
        }
    }
    pub open spec fn bin_of(k: op_binary::Kind, ffi: Option<u64>) -> Option<Binary> {
        match (k, ffi) {
            (op_binary::Kind::LessThan, None) => Some(Binary::LessThan), (op_binary::Kind::GreaterThan, None) => Some(Binary::GreaterThan), (op_binary::Kind::LessOrEqual, None) => Some(Binary::LessOrEqual), (op_binary::Kind::GreaterOrEqual, None) => Some(Binary::GreaterOrEqual), (op_binary::Kind::Equal, None) => Some(Binary::Equal), (op_binary::Kind::Contains, None) => Some(Binary::Contains), (op_binary::Kind::Prefix, None) => Some(Binary::Prefix), (op_binary::Kind::Suffix, None) => Some(Binary::Suffix), (op_binary::Kind::Regex, None) => Some(Binary::Regex), (op_binary::Kind::Add, None) => Some(Binary::Add), (op_binary::Kind::Sub, None) => Some(Binary::Sub), (op_binary::Kind::Mul, None) => Some(Binary::Mul), (op_binary::Kind::Div, None) => Some(Binary::Div), (op_binary::Kind::And, None) => Some(Binary::And), (op_binary::Kind::Or, None) => Some(Binary::Or), (op_binary::Kind::Intersection, None) => Some(Binary::Intersection), (op_binary::Kind::Union, None) => Some(Binary::Union), (op_binary::Kind::BitwiseAnd, None) => Some(Binary::BitwiseAnd), (op_binary::Kind::BitwiseOr, None) => Some(Binary::BitwiseOr), (op_binary::Kind::BitwiseXor, None) => Some(Binary::BitwiseXor), (op_binary::Kind::NotEqual, None) => Some(Binary::NotEqual), (op_binary::Kind::HeterogeneousEqual, None) => Some(Binary::HeterogeneousEqual), (op_binary::Kind::HeterogeneousNotEqual, None) => Some(Binary::HeterogeneousNotEqual), (op_binary::Kind::LazyAnd, None) => Some(Binary::LazyAnd), (op_binary::Kind::LazyOr, None) => Some(Binary::LazyOr), (op_binary::Kind::All, None) => Some(Binary::All), (op_binary::Kind::Any, None) => Some(Binary::Any), (op_binary::Kind::Get, None) => Some(Binary::Get),
            (op_binary::Kind::Ffi, Some(n)) => Some(Binary::Ffi(n)), _ => None,
        }
    }
    // the two tables are inverse of each other: what the writer writes is read back as the same operator, and the
    // reader accepts nothing the writer could not have written
    pub proof fn lemma_unary_tables(u: Unary, k: op_unary::Kind, ffi: Option<u64>)
        ensures un_of(un_kind(u), un_ffi(u)) == Some(u), un_of(k, ffi) == Some(u) ==> (un_kind(u) == k && un_ffi(u) == ffi)
    {}
    pub proof fn lemma_binary_tables(b: Binary, k: op_binary::Kind, ffi: Option<u64>)
        ensures bin_of(bin_kind(b), bin_ffi(b)) == Some(b), bin_of(k, ffi) == Some(b) ==> (bin_kind(b) == k && bin_ffi(b) == ffi)
    {}
    pub open spec fn un_matches(u: Unary, m: OpUnary) -> bool { un_of_code(m.kind) == Some(un_kind(u)) && m.ffi_name == un_ffi(u) }
    pub open spec fn bin_matches(b: Binary, m: OpBinary) -> bool { bin_of_code(m.kind) == Some(bin_kind(b)) && m.ffi_name == bin_ffi(b) }
    // round trip of the operator tables: what the writer writes is read back as the same operator
    pub proof fn lemma_unary_roundtrip(u: Unary)
        ensures un_matches(u, OpUnary { kind: un_code(un_kind(u)), ffi_name: un_ffi(u) })
    { ax_un_code(un_kind(u)); }
    pub proof fn lemma_binary_roundtrip(b: Binary)
        ensures bin_matches(b, OpBinary { kind: bin_code(bin_kind(b)), ffi_name: bin_ffi(b) })
    { ax_bin_code(bin_kind(b)); }
}
//@canary writer-swaps-comparisons :: format::convert::v2::token_op_to_proto_op :: Binary::LessOrEqual => Kind::LessOrEqual, ==>> Binary::LessOrEqual => Kind::GreaterOrEqual,
//@canary reader-swaps-lazy :: format::convert::v2::proto_op_to_token_op :: (Some(op_binary::Kind::LazyAnd), None) => Op::Binary(Binary::LazyAnd), ==>> (Some(op_binary::Kind::LazyAnd), None) => Op::Binary(Binary::LazyOr),
//@canary reader-accepts-ffi-name :: format::convert::v2::proto_op_to_token_op :: (Some(op_unary::Kind::Negate), None) => Op::Unary(Unary::Negate), ==>> (Some(op_unary::Kind::Negate), _) => Op::Unary(Unary::Negate),
//@canary writer-drops-ffi-name :: format::convert::v2::token_op_to_proto_op :: Binary::Ffi(name) => Some(name.to_owned()), ==>> Binary::Ffi(name) => None,
//@canary-requires format::convert::v2::proto_op_to_token_op
//@canary-requires format::convert::v2::token_op_to_proto_op
} // verus!
fn main() {}
