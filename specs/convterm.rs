// =======================================================================================
// Unit `convterm` — format/convert.rs v2::proto_id_to_token_term (C09, C12): decoding of a protobuf term.
//   scalars map to the term of the same kind; a set is accepted only when every element is present, is neither a
//   variable nor a set, and all elements have the same kind; no index / unwrap side condition can fail.
// The recursion into arrays goes through an oracle (iterator adaptor, rule A5).
// =======================================================================================
#![feature(allocator_api)]
#![allow(unused)]
use vstd::prelude::*;
verus! {
//@include std_prelude.rs
//@include error_mod.rs

pub mod datalog {
    use vstd::prelude::*;
    use std::collections::{BTreeMap, BTreeSet};
    pub type SymbolIndex = u64;
    //@extract biscuit-auth/src/datalog/mod.rs :: enum Term
    //@end
    //@extract biscuit-auth/src/datalog/mod.rs :: enum MapKey
    //@end
    // ASSUMED: derived comparison traits of Term / MapKey are total orders
    impl PartialEq for Term { #[verifier::external_body] fn eq(&self, o: &Self) -> bool { unimplemented!() } }
    impl Eq for Term {}
    impl PartialOrd for Term { #[verifier::external_body] fn partial_cmp(&self, o: &Self) -> Option<core::cmp::Ordering> { unimplemented!() } }
    impl Ord for Term { #[verifier::external_body] fn cmp(&self, o: &Self) -> core::cmp::Ordering { unimplemented!() } }
    impl PartialEq for MapKey { #[verifier::external_body] fn eq(&self, o: &Self) -> bool { unimplemented!() } }
    impl Eq for MapKey {}
    impl PartialOrd for MapKey { #[verifier::external_body] fn partial_cmp(&self, o: &Self) -> Option<core::cmp::Ordering> { unimplemented!() } }
    impl Ord for MapKey { #[verifier::external_body] fn cmp(&self, o: &Self) -> core::cmp::Ordering { unimplemented!() } }
}
pub mod format {
    pub mod schema {
        use vstd::prelude::*;
        //@extract biscuit-auth/src/format/schema.rs :: struct TermV2
        //@end
        pub mod term_v2 {
            use vstd::prelude::*;
            //@extract biscuit-auth/src/format/schema.rs :: mod term_v2 :: enum Content
            //@end
        }
        //@extract biscuit-auth/src/format/schema.rs :: struct TermSet
        //@end
        //@extract biscuit-auth/src/format/schema.rs :: struct Array
        //@end
        //@extract biscuit-auth/src/format/schema.rs :: struct Map
        //@end
        //@extract biscuit-auth/src/format/schema.rs :: struct MapEntry
        //@end
        //@extract biscuit-auth/src/format/schema.rs :: struct MapKey
        //@end
        pub mod map_key {
            use vstd::prelude::*;
            //@extract biscuit-auth/src/format/schema.rs :: mod map_key :: enum Content
            //@end
        }
        //@extract biscuit-auth/src/format/schema.rs :: struct Empty
        //@end
    }
    pub mod convert {
        use vstd::prelude::*;
        use crate::verif_std::*;
        use super::schema;
        use super::schema::MapEntry;
        use crate::datalog::*;
        use crate::error;
        use std::collections::{BTreeMap, BTreeSet};
        use crate::tspec2::*;
        broadcast use crate::error::qm_axioms;
        // ORACLE (rule A5): `a.array.iter().map(proto_id_to_token_term).collect::<Result<_, _>>()?`
        #[verifier::external_body]
        pub fn verif_terms_from(a: &Vec<schema::TermV2>) -> (r: Result<Vec<Term>, error::Format>) { unimplemented!() }

        //@extract biscuit-auth/src/format/convert.rs :: mod v2 :: fn proto_id_to_token_term
        //@ attr #[verifier::exec_allows_no_decreases_clause]
        //@ attr #[verifier::loop_isolation(false)]
        //@ sub a\s*\.array\s*\.iter\(\)\s*\.map\(proto_id_to_token_term\)\s*\.collect::<Result<_, _>>\(\)\? => verif_terms_from(&a.array)?
        //@ ensures empty: input.content is None ==> r is Err
        //@ ensures scalars: input.content is Some ==> (match input.content->Some_0 { schema::term_v2::Content::Variable(i) => r == Ok::<Term, error::Format>(Term::Variable(i)), schema::term_v2::Content::Integer(i) => r == Ok::<Term, error::Format>(Term::Integer(i)), schema::term_v2::Content::String(s) => r == Ok::<Term, error::Format>(Term::Str(s)), schema::term_v2::Content::Date(d) => r == Ok::<Term, error::Format>(Term::Date(d)), schema::term_v2::Content::Bool(b) => r == Ok::<Term, error::Format>(Term::Bool(b)), schema::term_v2::Content::Null(_) => r == Ok::<Term, error::Format>(Term::Null), _ => true })
        //@ ensures set_gate: input.content is Some && input.content->Some_0 is Set && r is Ok ==> set_ok(input.content->Some_0->Set_0.set@) && r->Ok_0 is Set
        //@ ensures shape: r is Ok && input.content is Some ==> (input.content->Some_0 is Array ==> r->Ok_0 is Array) && (input.content->Some_0 is Map ==> r->Ok_0 is Map) && (input.content->Some_0 is Bytes ==> r->Ok_0 is Bytes)
        //@ loop 0 ghost it
        //@ loop 0 invariant elems: it.seq().len() == s.set@.len() && forall|q: int| 0 <= q < it.seq().len() ==> *(#[trigger] it.seq()[q]) == s.set@[q]
        //@ loop 0 invariant kinds: forall|q: int| 0 <= q < it.index@ ==> elem_ok(#[trigger] s.set@[q]) && kind.is_some() && elem_tag(s.set@[q]) == kind->Some_0 as int
        //@ loop 0 invariant none: it.index@ == 0 ==> kind.is_none()
        //@end
    }
}
pub mod tspec2 {
    use vstd::prelude::*;
    use crate::format::schema::{TermV2, term_v2::Content};
    // the kind tag the decoder compares: integer 2, string 3, date 4, bytes 5, bool 6, null 8, array 9, map 10
    pub open spec fn elem_tag(t: TermV2) -> int {
        match t.content {
            Some(Content::Integer(_)) => 2, Some(Content::String(_)) => 3, Some(Content::Date(_)) => 4, Some(Content::Bytes(_)) => 5, Some(Content::Bool(_)) => 6,
            Some(Content::Null(_)) => 8, Some(Content::Array(_)) => 9, Some(Content::Map(_)) => 10, _ => 0,
        }
    }
    // a set element is present and is neither a variable nor a set
    pub open spec fn elem_ok(t: TermV2) -> bool { t.content is Some && !(t.content->Some_0 is Variable) && !(t.content->Some_0 is Set) }
    // Biscuit specification: sets are homogeneous and hold no variables and no sets
    pub open spec fn set_ok(s: Seq<TermV2>) -> bool {
        (forall|i: int| 0 <= i < s.len() ==> elem_ok(#[trigger] s[i])) && (forall|i: int, j: int| 0 <= i < s.len() && 0 <= j < s.len() ==> elem_tag(s[i]) == elem_tag(s[j]))
    }
}
//@canary set-accepts-variables :: format::convert::v2::proto_id_to_token_term :: Some(Content::Variable(_)) => {\n                            return Err(error::Format::DeserializationError(\n                                "deserialization error: sets cannot contain variables".to_string(),\n                            ));\n                        } ==>> Some(Content::Variable(_)) => 1,
//@canary set-kind-not-compared :: format::convert::v2::proto_id_to_token_term :: if *k != index { ==>> if false {
//@canary-requires format::convert::v2::proto_id_to_token_term
} // verus!
fn main() {}
