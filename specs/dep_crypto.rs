// ---------------------------------------------------------------------------------------
// dep_crypto.rs — ASSUMED contracts of the cryptographic dependencies (ed25519-dalek, p256 /
// ecdsa, zeroize). These modules are stand-ins for the external crates: same paths and
// method names as the real ones so that extracted bodies compile unchanged, bodies absent.
// Cryptography is ideal: verification predicates are uninterpreted, signing satisfies them.
// ---------------------------------------------------------------------------------------
pub mod ed25519_dalek {
    use vstd::prelude::*;

    #[verifier::external_body]
    pub struct VerifyingKey { _p: [u8; 32] }
    #[verifier::external_body]
    pub struct SigningKey { _p: [u8; 32] }
    #[verifier::external_body]
    pub struct Signature { _p: [u8; 64] }
    #[verifier::external_body]
    pub struct SignatureError { _p: u8 }
    pub type SecretKey = [u8; 32];
    pub const SIGNATURE_LENGTH: usize = 64;
    pub const PUBLIC_KEY_LENGTH: usize = 32;
    pub const SECRET_KEY_LENGTH: usize = 32;
    pub const KEYPAIR_LENGTH: usize = 64;

    pub uninterp spec fn vk_bytes(k: VerifyingKey) -> Seq<u8>;
    pub uninterp spec fn vk_of(k: SigningKey) -> VerifyingKey;
    pub uninterp spec fn sk_bytes(k: SigningKey) -> Seq<u8>;
    pub uninterp spec fn sig_bytes(s: Signature) -> Seq<u8>;
    // RFC 8032 verification with the extra checks of `verify_strict` (no small-order keys,
    // canonical R and s: the non-malleable one)
    pub uninterp spec fn strict_ok(k: VerifyingKey, msg: Seq<u8>, sig: Seq<u8>) -> bool;
    // plain `verify` (accepts more signatures than strict_ok)
    pub uninterp spec fn lax_ok(k: VerifyingKey, msg: Seq<u8>, sig: Seq<u8>) -> bool;
    pub uninterp spec fn sign_spec(k: SigningKey, msg: Seq<u8>) -> Seq<u8>;

    pub broadcast axiom fn ax_vk_bytes_len(k: VerifyingKey) ensures #[trigger] vk_bytes(k).len() == 32;
    pub broadcast axiom fn ax_vk_bytes_inj(a: VerifyingKey, b: VerifyingKey)
        ensures #[trigger] vk_bytes(a) == #[trigger] vk_bytes(b) ==> a == b;
    pub broadcast axiom fn ax_sk_bytes_inj(a: SigningKey, b: SigningKey)
        ensures #[trigger] sk_bytes(a) == #[trigger] sk_bytes(b) ==> a == b;
    pub broadcast axiom fn ax_sign_verifies(k: SigningKey, msg: Seq<u8>)
        ensures strict_ok(vk_of(k), msg, #[trigger] sign_spec(k, msg)), sign_spec(k, msg).len() == 64;
    pub broadcast group dalek_axioms { ax_vk_bytes_len, ax_vk_bytes_inj, ax_sk_bytes_inj, ax_sign_verifies }

    impl VerifyingKey {
        #[verifier::external_body]
        pub fn verify_strict(&self, message: &[u8], signature: &Signature) -> (r: Result<(), SignatureError>)
            ensures r is Ok ==> strict_ok(*self, message@, sig_bytes(*signature))
        { unimplemented!() }
        #[verifier::external_body]
        pub fn verify(&self, message: &[u8], signature: &Signature) -> (r: Result<(), SignatureError>)
            ensures r is Ok ==> lax_ok(*self, message@, sig_bytes(*signature))
        { unimplemented!() }
        #[verifier::external_body]
        pub fn to_bytes(&self) -> (r: [u8; 32]) ensures r@ == vk_bytes(*self) { unimplemented!() }
        #[verifier::external_body]
        pub fn from_bytes(bytes: &[u8; 32]) -> (r: Result<VerifyingKey, SignatureError>)
            ensures r is Ok ==> vk_bytes(r->Ok_0) == bytes@
        { unimplemented!() }
    }
    impl Signature {
        #[verifier::external_body]
        pub fn from_bytes(bytes: &[u8; 64]) -> (r: Signature) ensures sig_bytes(r) == bytes@ { unimplemented!() }
        #[verifier::external_body]
        pub fn to_bytes(&self) -> (r: [u8; 64]) ensures r@ == sig_bytes(*self) { unimplemented!() }
    }
    impl SigningKey {
        #[verifier::external_body]
        pub fn from_bytes(bytes: &SecretKey) -> (r: SigningKey) ensures sk_bytes(r) == bytes@ { unimplemented!() }
        #[verifier::external_body]
        pub fn to_bytes(&self) -> (r: SecretKey) ensures r@ == sk_bytes(*self) { unimplemented!() }
        #[verifier::external_body]
        pub fn verifying_key(&self) -> (r: VerifyingKey) ensures r == vk_of(*self) { unimplemented!() }
        // ed25519_dalek::Signer::try_sign
        #[verifier::external_body]
        pub fn try_sign(&self, msg: &[u8]) -> (r: Result<Signature, SignatureError>)
            ensures r is Ok ==> sig_bytes(r->Ok_0) == sign_spec(*self, msg@)
        { unimplemented!() }
    }
    impl SignatureError {
        #[verifier::external_body]
        pub fn to_string(&self) -> String { unimplemented!() }
    }
    impl Clone for VerifyingKey {
        #[verifier::external_body]
        fn clone(&self) -> (r: Self) ensures r == *self { unimplemented!() }
    }
    impl Copy for VerifyingKey {}
    impl core::fmt::Debug for VerifyingKey {
        #[verifier::external_body]
        fn fmt(&self, f: &mut core::fmt::Formatter<'_>) -> core::fmt::Result { unimplemented!() }
    }
    impl core::fmt::Debug for SigningKey {
        #[verifier::external_body]
        fn fmt(&self, f: &mut core::fmt::Formatter<'_>) -> core::fmt::Result { unimplemented!() }
    }
}

pub mod ecdsa {
    use vstd::prelude::*;
    #[verifier::external_body]
    #[verifier::accept_recursive_types(C)]
    pub struct Signature<C> { _p: core::marker::PhantomData<C> }
    #[verifier::external_body]
    pub struct DerSignature { _p: u8 }
    #[verifier::external_body]
    pub struct Error { _p: u8 }
    impl Error {
        #[verifier::external_body]
        pub fn to_string(&self) -> String { unimplemented!() }
    }
    impl View for DerSignature {
        type V = Seq<u8>;
        uninterp spec fn view(&self) -> Seq<u8>;
    }
    impl DerSignature {
        #[verifier::external_body]
        pub fn as_bytes(&self) -> (r: &[u8]) ensures r@ == self@ { unimplemented!() }
    }
}
pub mod p256 {
    use vstd::prelude::*;
    #[verifier::external_body]
    pub struct NistP256 { _p: u8 }
    pub mod ecdsa {
        use vstd::prelude::*;
        pub use crate::ecdsa::{DerSignature, Error};
        pub type Signature = crate::ecdsa::Signature<super::NistP256>;
        #[verifier::external_body]
        pub struct VerifyingKey { _p: [u8; 33] }
        #[verifier::external_body]
        pub struct SigningKey { _p: [u8; 32] }

        pub uninterp spec fn vk_bytes(k: VerifyingKey) -> Seq<u8>;    // compressed SEC1
        pub uninterp spec fn vk_of(k: SigningKey) -> VerifyingKey;
        pub uninterp spec fn sk_bytes(k: SigningKey) -> Seq<u8>;
        pub uninterp spec fn der(s: Signature) -> Seq<u8>;
        pub uninterp spec fn ecdsa_ok(k: VerifyingKey, msg: Seq<u8>, s: Signature) -> bool;
        pub uninterp spec fn sign_spec(k: SigningKey, msg: Seq<u8>) -> Signature;
        // the canonical one of the two ECDSA signatures (r, s) / (r, n - s) that verify together: s <= n / 2.
        // p256's `verify` does NOT require it (NistP256 has NORMALIZE_S = false; `Signature::normalize_s` exists
        // for callers that want it) - so nothing below lets a caller conclude low_s from a successful `verify`
        pub uninterp spec fn low_s(s: Signature) -> bool;

        pub broadcast axiom fn ax_vk_bytes_len(k: VerifyingKey) ensures #[trigger] vk_bytes(k).len() == 33;
        pub broadcast axiom fn ax_vk_bytes_inj(a: VerifyingKey, b: VerifyingKey)
            ensures #[trigger] vk_bytes(a) == #[trigger] vk_bytes(b) ==> a == b;
        pub broadcast axiom fn ax_sk_bytes_inj(a: SigningKey, b: SigningKey)
            ensures #[trigger] sk_bytes(a) == #[trigger] sk_bytes(b) ==> a == b;
        pub broadcast axiom fn ax_der_inj(a: Signature, b: Signature)
            ensures #[trigger] der(a) == #[trigger] der(b) ==> a == b;
        pub broadcast axiom fn ax_sign_verifies(k: SigningKey, msg: Seq<u8>)
            ensures ecdsa_ok(vk_of(k), msg, #[trigger] sign_spec(k, msg));
        pub broadcast axiom fn ax_sk_bytes_len(k: SigningKey) ensures #[trigger] sk_bytes(k).len() == 32;
        pub broadcast group p256_axioms { ax_vk_bytes_len, ax_vk_bytes_inj, ax_sk_bytes_inj, ax_sk_bytes_len, ax_der_inj, ax_sign_verifies, ax_sec1_compressed, ax_field_bytes_of }

        impl VerifyingKey {
            // signature::Verifier::verify
            #[verifier::external_body]
            pub fn verify(&self, msg: &[u8], signature: &Signature) -> (r: Result<(), Error>)
                ensures r is Ok ==> ecdsa_ok(*self, msg@, *signature)
            { unimplemented!() }
        }
        impl Signature {
            #[verifier::external_body]
            pub fn from_der(bytes: &[u8]) -> (r: Result<Signature, Error>)
                ensures r is Ok ==> der(r->Ok_0) == bytes@
            { unimplemented!() }
            #[verifier::external_body]
            pub fn to_der(&self) -> (r: DerSignature) ensures r@ == der(*self) { unimplemented!() }
            // ecdsa::Signature::normalize_s: None when s is already in the lower half
            #[verifier::external_body]
            pub fn normalize_s(&self) -> (r: Option<Signature>) ensures r is None <==> low_s(*self) { unimplemented!() }
        }
        #[verifier::external_body]
        pub struct FieldBytes { _p: [u8; 32] }
        impl View for FieldBytes {
            type V = Seq<u8>;
            uninterp spec fn view(&self) -> Seq<u8>;
        }
        impl FieldBytes {
            #[verifier::external_body]
            pub fn to_vec(&self) -> (r: Vec<u8>) ensures r@ == self@ { unimplemented!() }
        }
        // `bytes.into()` (&[u8] -> &GenericArray<u8, U32>): generic-array PANICS when the length is
        // not 32, hence into_req
        pub uninterp spec fn field_bytes_of<'a>(s: &'a [u8]) -> &'a FieldBytes;
        pub broadcast axiom fn ax_field_bytes_of<'a>(s: &'a [u8]) ensures (#[trigger] field_bytes_of(s))@ == s@;
        impl<'a> crate::verif_std::VerifInto<&'a FieldBytes> for &'a [u8] {
            open spec fn into_req(self) -> bool { self@.len() == 32 }
            open spec fn into_spec(self) -> &'a FieldBytes { field_bytes_of(self) }
            #[verifier::external_body]
            fn verif_into(self) -> (r: &'a FieldBytes) { unimplemented!() }
        }
        impl VerifyingKey {
            #[verifier::external_body]
            pub fn from_sec1_bytes(bytes: &[u8]) -> (r: Result<VerifyingKey, Error>)
                ensures r is Ok ==> sec1_decodes(bytes@, r->Ok_0)
            { unimplemented!() }
        }
        // SEC1 decoding accepts the compressed form produced by to_bytes (and the uncompressed one)
        pub uninterp spec fn sec1_decodes(bytes: Seq<u8>, k: VerifyingKey) -> bool;
        pub axiom fn ax_sec1_function(bytes: Seq<u8>, a: VerifyingKey, b: VerifyingKey)
            ensures sec1_decodes(bytes, a) && sec1_decodes(bytes, b) ==> a == b;
        pub axiom fn ax_sec1_total(k: VerifyingKey)
            ensures sec1_decodes(vk_bytes(k), k);
        pub broadcast axiom fn ax_sec1_compressed(bytes: Seq<u8>, k: VerifyingKey)
            ensures #[trigger] sec1_decodes(bytes, k) && bytes.len() == 33 ==> vk_bytes(k) == bytes;
        impl SigningKey {
            #[verifier::external_body]
            pub fn to_bytes(&self) -> (r: FieldBytes) ensures r@ == sk_bytes(*self) { unimplemented!() }
            #[verifier::external_body]
            pub fn from_bytes(bytes: &FieldBytes) -> (r: Result<SigningKey, Error>)
                ensures r is Ok ==> sk_bytes(r->Ok_0) == bytes@
            { unimplemented!() }
            // signature::Signer::try_sign
            #[verifier::external_body]
            pub fn try_sign(&self, msg: &[u8]) -> (r: Result<Signature, Error>)
                ensures r is Ok ==> r->Ok_0 == sign_spec(*self, msg@)
            { unimplemented!() }
            #[verifier::external_body]
            pub fn verifying_key(&self) -> (r: &VerifyingKey) ensures *r == vk_of(*self) { unimplemented!() }
        }
        impl Clone for SigningKey {
            #[verifier::external_body]
            fn clone(&self) -> (r: Self) ensures r == *self { unimplemented!() }
        }
        impl Clone for VerifyingKey {
            #[verifier::external_body]
            fn clone(&self) -> (r: Self) ensures r == *self { unimplemented!() }
        }
        impl Copy for VerifyingKey {}
        impl core::fmt::Debug for VerifyingKey {
            #[verifier::external_body]
            fn fmt(&self, f: &mut core::fmt::Formatter<'_>) -> core::fmt::Result { unimplemented!() }
        }
        impl core::fmt::Debug for SigningKey {
            #[verifier::external_body]
            fn fmt(&self, f: &mut core::fmt::Formatter<'_>) -> core::fmt::Result { unimplemented!() }
        }
    }
}
pub mod zeroize {
    use vstd::prelude::*;
    // zeroize::Zeroizing<T>: a wrapper that wipes its content on drop; `Deref<Target = T>`
    pub struct Zeroizing<T> { pub inner: T }
    impl<T> Zeroizing<T> {
        #[verifier::external_body]
        pub fn new(t: T) -> (r: Self) ensures r.inner == t { unimplemented!() }
    }
    impl Zeroizing<Vec<u8>> {
        // Deref + <[u8]>::to_vec
        #[verifier::external_body]
        pub fn to_vec(&self) -> (r: Vec<u8>) ensures r@ == self.inner@ { unimplemented!() }
    }
}
