// =======================================================================================
// Unit `engine` — datalog/mod.rs, the functions AROUND the join iterator (C04):
//   Rule::find_match, Rule::check_match_all, World::query_match, World::query_match_all, World::query_rule.
// The join itself (CombineIt, a recursive Box<dyn Iterator>) and Rule::apply (map / filter_map closures over it)
// are outside Verus: they enter as ORACLES — opaque iterators whose sequence of items is an uninterpreted
// function of their arguments (rule A2). Expression evaluation is an oracle too (proved in unit `expr`).
// What is proved is how these functions turn the oracle's items into a decision.
// =======================================================================================
#![feature(allocator_api)]
#![allow(unused)]
use vstd::prelude::*;
verus! {
//@include std_prelude.rs
//@include error_mod.rs
//@include time_stub.rs

pub mod keyax {
    use vstd::prelude::*;
    pub broadcast axiom fn ax_trusted_origins_key()
        ensures #[trigger] vstd::std_specs::hash::obeys_key_model::<crate::datalog::TrustedOrigins>();
}
pub mod datalog {
    use vstd::prelude::*;
    use crate::verif_std::*;
    use crate::error;
    use crate::error::Execution;
    use std::collections::{BTreeMap, BTreeSet, HashMap, HashSet};
    use crate::time::{Instant, Duration};
    pub type SymbolIndex = u64;
    broadcast use {crate::error::qm_axioms, vstd::std_specs::hash::group_hash_axioms, crate::keyax::ax_trusted_origins_key};

    //@extract biscuit-auth/src/datalog/mod.rs :: enum Term
    //@end
    //@extract biscuit-auth/src/datalog/mod.rs :: enum MapKey
    //@end
    //@extract biscuit-auth/src/datalog/mod.rs :: struct Predicate
    //@end
    //@extract biscuit-auth/src/datalog/mod.rs :: struct Fact
    //@end
    //@extract biscuit-auth/src/datalog/mod.rs :: struct Rule
    //@end
    //@extract biscuit-auth/src/datalog/mod.rs :: struct World
    //@end
    // stand-ins (opaque)
    #[verifier::external_body] pub struct Expression { _p: u8 }
    #[verifier::external_body] pub struct Scope { _p: u8 }
    #[verifier::external_body] pub struct SymbolTable { _p: u8 }
    #[verifier::external_body] pub struct TemporarySymbolTable { _p: u8 }
    #[verifier::external_body] pub struct ExternFunc { _p: u8 }
    #[verifier::external_body] pub struct Origin { _p: u8 }
    #[verifier::external_body] pub struct TrustedOrigins { _p: u8 }
    #[verifier::external_body] pub struct FactSet { _p: u8 }
    //@extract biscuit-auth/src/datalog/mod.rs :: struct RuleSet
    //@end
    //@extract biscuit-auth/src/datalog/mod.rs :: struct RunLimits
    //@end
    // TrustedOrigins as a HashMap key: ASSUMED to obey vstd's key model (derived Hash / Eq are structural)
    impl std::hash::Hash for TrustedOrigins { #[verifier::external_body] fn hash<H: std::hash::Hasher>(&self, state: &mut H) { unimplemented!() } }
    impl PartialEq for TrustedOrigins { #[verifier::external_body] fn eq(&self, o: &Self) -> bool { unimplemented!() } }
    impl Eq for TrustedOrigins {}
    #[verifier::external_body] pub struct MatchedVariables { _p: u8 }
    #[verifier::external_body] pub struct FactIt { _p: u8 }
    impl Clone for FactIt { #[verifier::external_body] fn clone(&self) -> (r: Self) ensures r == *self { unimplemented!() } }

    // ---- opaque iterator (rule A2): yields exactly the uninterpreted sequence verif_seq_rem(it) ----
    #[verifier::external_body]
    #[verifier::reject_recursive_types(T)]
    pub struct VerifSeqIter<T> { _p: core::marker::PhantomData<T> }
    pub uninterp spec fn verif_seq_rem<T>(it: VerifSeqIter<T>) -> Seq<T>;
    impl<T> Iterator for VerifSeqIter<T> {
        type Item = T;
        #[verifier::external_body]
        fn next(&mut self) -> (r: Option<T>)
            ensures verif_seq_rem(*old(self)).len() == 0 ==> r is None && verif_seq_rem(*final(self)).len() == 0,
                    verif_seq_rem(*old(self)).len() > 0 ==> r == Some(verif_seq_rem(*old(self))[0]) && verif_seq_rem(*final(self)) == verif_seq_rem(*old(self)).skip(1)
        { unimplemented!() }
    }
    impl<T> vstd::std_specs::iter::IteratorSpecImpl for VerifSeqIter<T> {
        open spec fn obeys_prophetic_iter_laws(&self) -> bool { true }
        open spec fn remaining(&self) -> Seq<T> { verif_seq_rem(*self) }
        open spec fn will_return_none(&self) -> bool { true }
        open spec fn decrease(&self) -> Option<nat> { Some(verif_seq_rem(*self).len()) }
        open spec fn peek(&self, i: int) -> Option<T> { if 0 <= i < verif_seq_rem(*self).len() { Some(verif_seq_rem(*self)[i]) } else { None } }
    }

    // ---- ORACLES -------------------------------------------------------------------------------
    // the facts of `facts` visible under the trusted set `scope`
    pub uninterp spec fn fact_it_of(facts: Set<(Origin, Fact)>, scope: TrustedOrigins) -> FactIt;
    // the bindings produced by the join of `body` over the visible facts, with their origins, in the iterator's order
    pub uninterp spec fn combos(vars: MatchedVariables, body: Seq<Predicate>, facts: FactIt, symbols: SymbolTable) -> Seq<(Origin, HashMap<u32, Term>)>;
    // the items of Rule::apply: the facts a rule derives (or the expression error met on the way)
    pub uninterp spec fn apply_seq(rule: Rule, facts: FactIt, origin: usize, symbols: SymbolTable, ext: HashMap<String, ExternFunc>) -> Seq<Result<(Origin, Fact), error::Expression>>;
    pub uninterp spec fn mv_of(rule: Rule) -> MatchedVariables;
    // evaluation of one expression under bindings (unit `expr`), threaded through the temporary symbol table
    pub uninterp spec fn eval_res(e: Expression, vars: HashMap<u32, Term>, tmp: TemporarySymbolTable, ext: HashMap<String, ExternFunc>) -> Result<Term, error::Expression>;
    pub uninterp spec fn tmp_next(e: Expression, vars: HashMap<u32, Term>, tmp: TemporarySymbolTable, ext: HashMap<String, ExternFunc>) -> TemporarySymbolTable;
    pub uninterp spec fn tmp_new(symbols: SymbolTable) -> TemporarySymbolTable;
    // the content of a fact set
    pub uninterp spec fn fs_view(f: FactSet) -> Set<(Origin, Fact)>;

    impl FactSet {
        #[verifier::external_body]
        pub fn iterator<'a>(&'a self, scope: &'a TrustedOrigins) -> (r: FactIt) ensures r == fact_it_of(fs_view(*self), *scope) { unimplemented!() }
        #[verifier::external_body]
        pub fn insert(&mut self, origin: &Origin, fact: Fact) ensures fs_view(*final(self)) == fs_view(*old(self)).insert((*origin, fact)) { unimplemented!() }
        #[verifier::external_body]
        pub fn default() -> (r: FactSet) ensures fs_view(r) == Set::<(Origin, Fact)>::empty() { unimplemented!() }
        // ASSUMED (HashMap<Origin, HashSet<Fact>> code): len is the number of (origin, fact) pairs, merge is the union
        #[verifier::external_body]
        pub fn len(&self) -> (r: usize) ensures r == fs_view(*self).len() { unimplemented!() }
        #[verifier::external_body]
        pub fn merge(&mut self, other: FactSet) ensures fs_view(*final(self)) == fs_view(*old(self)).union(fs_view(other)) { unimplemented!() }
    }
    impl Clone for Origin { #[verifier::external_body] fn clone(&self) -> (r: Self) ensures r == *self { unimplemented!() } }
    impl TemporarySymbolTable {
        #[verifier::external_body]
        pub fn new(symbols: &SymbolTable) -> (r: TemporarySymbolTable) ensures r == tmp_new(*symbols) { unimplemented!() }
    }
    impl MatchedVariables {
        #[verifier::external_body]
        pub fn new(import: HashSet<u32>) -> (r: MatchedVariables) ensures r == mv_from(import) { unimplemented!() }
    }
    pub uninterp spec fn mv_from(import: HashSet<u32>) -> MatchedVariables;
    pub uninterp spec fn vars_of(rule: Rule) -> HashSet<u32>;
    impl Expression {
        #[verifier::external_body]
        pub fn evaluate(&self, values: &HashMap<u32, Term>, symbols: &mut TemporarySymbolTable, extern_funcs: &HashMap<String, ExternFunc>) -> (r: Result<Term, error::Expression>)
            ensures r == eval_res(*self, *values, *old(symbols), *extern_funcs), *final(symbols) == tmp_next(*self, *values, *old(symbols), *extern_funcs)
        { unimplemented!() }
    }
    // rule A2: `CombineIt::new(variables, &self.body, fact_it, symbols)`
    #[verifier::external_body]
    pub fn verif_combine<'a>(variables: MatchedVariables, body: &'a Vec<Predicate>, facts: FactIt, symbols: &'a SymbolTable) -> (r: VerifSeqIter<(Origin, HashMap<u32, Term>)>)
        ensures verif_seq_rem(r) == combos(variables, body@, facts, *symbols)
    { unimplemented!() }

    // ---- specification of the decisions ---------------------------------------------------------
    // all expressions of a rule on one binding: Ok(true) all true, Ok(false) the first non-true one is false
    pub open spec fn exprs_spec(exprs: Seq<Expression>, j: int, vars: HashMap<u32, Term>, tmp: TemporarySymbolTable, ext: HashMap<String, ExternFunc>) -> Result<bool, Execution>
        decreases exprs.len() - j
    {
        if j < 0 || j >= exprs.len() { Ok(true) }
        else {
            match eval_res(exprs[j], vars, tmp, ext) {
                Ok(Term::Bool(b)) => if b { exprs_spec(exprs, j + 1, vars, tmp_next(exprs[j], vars, tmp, ext), ext) } else { Ok(false) },
                Ok(_) => Err(Execution::Expression(error::Expression::InvalidType)),
                Err(e) => Err(Execution::Expression(e)),
            }
        }
    }
    // `check all`: there is at least one match of the body and every match satisfies every expression
    pub open spec fn cma_spec(cs: Seq<(Origin, HashMap<u32, Term>)>, k: int, exprs: Seq<Expression>, symbols: SymbolTable, ext: HashMap<String, ExternFunc>) -> Result<bool, Execution>
        decreases cs.len() - k
    {
        if k < 0 || k >= cs.len() { Ok(cs.len() > 0) }
        else {
            match exprs_spec(exprs, 0, cs[k].1, tmp_new(symbols), ext) {
                Ok(b) => if b { cma_spec(cs, k + 1, exprs, symbols, ext) } else { Ok(false) },
                Err(e) => Err(e),
            }
        }
    }
    pub open spec fn check_all_spec(rule: Rule, facts: FactSet, scope: TrustedOrigins, symbols: SymbolTable, ext: HashMap<String, ExternFunc>) -> Result<bool, Execution> {
        cma_spec(combos(mv_from(vars_of(rule)), rule.body@, fact_it_of(fs_view(facts), scope), symbols), 0, rule.expressions@, symbols, ext)
    }
    // `check if` / policies: the first item of the rule's application decides
    pub open spec fn find_spec(rule: Rule, facts: FactSet, origin: usize, scope: TrustedOrigins, symbols: SymbolTable, ext: HashMap<String, ExternFunc>) -> Result<bool, Execution> {
        let s = apply_seq(rule, fact_it_of(fs_view(facts), scope), origin, symbols, ext);
        if s.len() == 0 { Ok(false) } else { match s[0] { Ok(_) => Ok(true), Err(e) => Err(Execution::Expression(e)) } }
    }

    // ---- the fixpoint loop (World::run_with_limits) -------------------------------------------------
    pub open spec fn item_in(nf: Set<(Origin, Fact)>, item: Result<(Origin, Fact), error::Expression>) -> bool { item is Ok && nf.contains(item->Ok_0) }
    // the first `upto` items of one rule application are recorded in nf
    pub open spec fn rule_done(nf: Set<(Origin, Fact)>, s: Seq<Result<(Origin, Fact), error::Expression>>, upto: int) -> bool {
        forall|k: int| 0 <= k < upto && k < s.len() ==> item_in(nf, #[trigger] s[k])
    }
    pub open spec fn rules_done(nf: Set<(Origin, Fact)>, rules: Seq<(usize, Rule)>, fit: FactIt, symbols: SymbolTable, ext: HashMap<String, ExternFunc>, upto: int) -> bool {
        forall|idx: int| 0 <= idx < upto && idx < rules.len() ==> rule_done(nf, #[trigger] apply_seq(rules[idx].1, fit, rules[idx].0, symbols, ext), apply_seq(rules[idx].1, fit, rules[idx].0, symbols, ext).len() as int)
    }
    // every fact derivable in ONE round from the facts f, by any rule of the rule store, is in nf
    pub open spec fn closed_over(nf: Set<(Origin, Fact)>, rm: Map<TrustedOrigins, Vec<(usize, Rule)>>, f: Set<(Origin, Fact)>, symbols: SymbolTable, ext: HashMap<String, ExternFunc>) -> bool {
        forall|scope: TrustedOrigins| #[trigger] rm.contains_key(scope) ==> rules_done(nf, rm[scope]@, fact_it_of(f, scope), symbols, ext, rm[scope]@.len() as int)
    }
    // fixpoint: the fact set is closed under one more round of rule application
    pub open spec fn closed(rm: Map<TrustedOrigins, Vec<(usize, Rule)>>, f: Set<(Origin, Fact)>, symbols: SymbolTable, ext: HashMap<String, ExternFunc>) -> bool {
        closed_over(f, rm, f, symbols, ext)
    }
    pub proof fn lemma_union_same_len<T>(a: Set<T>, b: Set<T>)
        requires a.union(b).len() == a.len()
        ensures b.subset_of(a), a.union(b) =~= a
    {
        let d = b.difference(a);
        assert(a.disjoint(d));
        vstd::set_lib::lemma_set_disjoint_lens(a, d);
        assert(a.union(d) =~= a.union(b));
        assert(d.len() == 0);
        d.lemma_len0_is_empty();
        assert forall|x: T| b.contains(x) implies a.contains(x) by { if !a.contains(x) { assert(d.contains(x)); } }
    }
    impl Rule {
        #[verifier::external_body]
        pub fn variables_set(&self) -> (r: HashSet<u32>) ensures r == vars_of(*self) { unimplemented!() }
        // ORACLE: Rule::apply
        #[verifier::external_body]
        pub fn apply<'a>(&'a self, facts: FactIt, rule_origin: usize, symbols: &'a SymbolTable, extern_funcs: &'a HashMap<String, ExternFunc>) -> (r: VerifSeqIter<Result<(Origin, Fact), error::Expression>>)
            ensures verif_seq_rem(r) == apply_seq(*self, facts, rule_origin, *symbols, *extern_funcs)
        { unimplemented!() }

        //@extract biscuit-auth/src/datalog/mod.rs :: impl Rule :: fn find_match
        //@ ensures decision: r == find_spec(*self, *facts, origin, *scope, *symbols, *extern_funcs)
        //@end

        //@extract biscuit-auth/src/datalog/mod.rs :: impl Rule :: fn check_match_all
        //@ attr #[verifier::loop_isolation(false)]
        //@ sub CombineIt::new\(variables, &self\.body, fact_it, symbols\) => verif_combine(variables, &self.body, fact_it, symbols)
        //@ ensures decision: r == check_all_spec(*self, *facts, *scope, *symbols, *extern_funcs)
        //@ loop 0 ghost it
        //@ loop 0 invariant found: found == (it.index@ > 0)
        //@ loop 0 invariant seq: it.seq() == combos(mv_from(vars_of(*self)), self.body@, fact_it_of(fs_view(*facts), *scope), *symbols)
        //@ loop 0 invariant spec: check_all_spec(*self, *facts, *scope, *symbols, *extern_funcs) == cma_spec(it.seq(), it.index@, self.expressions@, *symbols, *extern_funcs)
        //@ loop 1 ghost jt
        //@ loop 1 invariant seq: jt.seq().len() == self.expressions@.len() && forall|i: int| 0 <= i < self.expressions@.len() ==> *(#[trigger] jt.seq()[i]) == self.expressions@[i]
        //@ loop 1 invariant spec: exprs_spec(self.expressions@, 0, variables, tmp_new(*symbols), *extern_funcs) == exprs_spec(self.expressions@, jt.index@, variables, temporary_symbols, *extern_funcs)
        //@end
    }

    impl World {
        //@extract biscuit-auth/src/datalog/mod.rs :: impl World :: fn run_with_limits
        //@ attr #[verifier::loop_isolation(false)]
        //@ attr #[verifier::allow_complex_invariants]
        //@ sub let res; => let res: Result<(), Execution>;
        //@ requires time_sane: limits.max_time.nanos <= crate::time::MAX_NANOS / 2
        //@ ensures fixpoint: r is Ok ==> closed(final(self).rules.inner@, fs_view(final(self).facts), *symbols, final(self).extern_funcs)
        //@ ensures monotone: fs_view(old(self).facts).subset_of(fs_view(final(self).facts))
        //@ ensures frame: final(self).rules == old(self).rules && final(self).extern_funcs == old(self).extern_funcs
        //@ loop 0 invariant frame: self.rules == old(self).rules && self.extern_funcs == old(self).extern_funcs && self.iterations == old(self).iterations
        //@ loop 0 invariant monotone: fs_view(old(self).facts).subset_of(fs_view(self.facts))
        //@ loop 0 invariant index_bound: index <= limits.max_iterations + 1
        //@ loop 0 invariant_except_break index: index == 0 || index < limits.max_iterations
        //@ loop 0 ensures fixpoint: res is Ok ==> closed(self.rules.inner@, fs_view(self.facts), *symbols, self.extern_funcs)
        //@ loop 0 decreases limits.max_iterations + 1 - index
        //@ ghost loop 0 start :: let ghost f = fs_view(self.facts); let ghost rm = self.rules.inner@; let ghost ext = self.extern_funcs;
        //@ loop 1 ghost it1
        //@ loop 1 invariant frame: self.rules.inner@ == rm && fs_view(self.facts) == f && self.extern_funcs == ext && self.iterations == old(self).iterations && self.rules == old(self).rules
        //@ loop 1 invariant pairs: forall|j: int| 0 <= j < it1.seq().len() ==> rm.contains_key(*(#[trigger] it1.seq()[j]).0) && rm[*it1.seq()[j].0] == *it1.seq()[j].1
        //@ loop 1 invariant complete: forall|sc: TrustedOrigins| rm.contains_key(sc) ==> exists|j: int| 0 <= j < it1.seq().len() && *(#[trigger] it1.seq()[j]).0 == sc
        //@ loop 1 invariant done: forall|j: int| 0 <= j < it1.index@ ==> rules_done(fs_view(new_facts), (*(#[trigger] it1.seq()[j]).1)@, fact_it_of(f, *it1.seq()[j].0), *symbols, ext, (*it1.seq()[j].1)@.len() as int)
        //@ loop 2 ghost it2
        //@ loop 2 invariant elems: it2.seq().len() == rules@.len() && forall|q: int| 0 <= q < it2.seq().len() ==> *(#[trigger] it2.seq()[q]) == rules@[q]
        //@ loop 2 invariant done: rules_done(fs_view(new_facts), rules@, fact_it_of(f, *scope), *symbols, ext, it2.index@)
        //@ loop 2 invariant prev: forall|j: int| 0 <= j < it1.index@ ==> rules_done(fs_view(new_facts), (*(#[trigger] it1.seq()[j]).1)@, fact_it_of(f, *it1.seq()[j].0), *symbols, ext, (*it1.seq()[j].1)@.len() as int)
        //@ loop 2 invariant frame: self.rules.inner@ == rm && fs_view(self.facts) == f && self.extern_funcs == ext && self.iterations == old(self).iterations && self.rules == old(self).rules && it == fact_it_of(f, *scope)
        //@ loop 3 ghost it3
        //@ loop 3 invariant seq: it3.seq() == apply_seq(*rule, fact_it_of(f, *scope), *origin, *symbols, ext)
        //@ loop 3 invariant this: rule_done(fs_view(new_facts), it3.seq(), it3.index@)
        //@ loop 3 invariant done: rules_done(fs_view(new_facts), rules@, fact_it_of(f, *scope), *symbols, ext, it2.index@)
        //@ loop 3 invariant prev: forall|j: int| 0 <= j < it1.index@ ==> rules_done(fs_view(new_facts), (*(#[trigger] it1.seq()[j]).1)@, fact_it_of(f, *it1.seq()[j].0), *symbols, ext, (*it1.seq()[j].1)@.len() as int)
        //@ loop 3 invariant frame: self.rules.inner@ == rm && fs_view(self.facts) == f && self.extern_funcs == ext && self.iterations == old(self).iterations && self.rules == old(self).rules
        //@ loop 1 invariant done_by_scope: forall|sc: TrustedOrigins| #![trigger rm.contains_key(sc)] rm.contains_key(sc) && (exists|j: int| 0 <= j < it1.index@ && *(#[trigger] it1.seq()[j]).0 == sc) ==> rules_done(fs_view(new_facts), rm[sc]@, fact_it_of(f, sc), *symbols, ext, rm[sc]@.len() as int)
        //@ ghost before "let len = self.facts.len();" :: proof { assert(closed_over(fs_view(new_facts), rm, f, *symbols, ext)); } let ghost nf = fs_view(new_facts);
        //@ ghost before "{ res = Ok(()); break; }" :: proof { assert(fs_view(self.facts) == f.union(nf)); lemma_union_same_len(f, nf); assert(fs_view(self.facts) == f); assert(closed(rm, f, *symbols, ext)) by { assert forall|sc: TrustedOrigins| #[trigger] rm.contains_key(sc) implies rules_done(f, rm[sc]@, fact_it_of(f, sc), *symbols, ext, rm[sc]@.len() as int) by { assert(rules_done(nf, rm[sc]@, fact_it_of(f, sc), *symbols, ext, rm[sc]@.len() as int)); } } }
        //@end
        //@extract biscuit-auth/src/datalog/mod.rs :: impl World :: fn query_match
        //@ ensures decision: r == find_spec(rule, self.facts, origin, *scope, *symbols, self.extern_funcs)
        //@end
        //@extract biscuit-auth/src/datalog/mod.rs :: impl World :: fn query_match_all
        //@ ensures decision: r == check_all_spec(rule, self.facts, *scope, *symbols, self.extern_funcs)
        //@end
    }
}
//@canary check-all-vacuous :: datalog::Rule::check_match_all :: Ok(found) ==>> Ok(true)
//@canary check-all-false-ignored :: datalog::Rule::check_match_all :: return Ok(false); ==>> {}
//@canary check-all-nonbool-accepted :: datalog::Rule::check_match_all :: Ok(_) => {\n                        return Err(error::Execution::Expression(error::Expression::InvalidType))\n                    } ==>> Ok(_) => {}
//@canary find-match-inverted :: datalog::Rule::find_match :: None => Ok(false), ==>> None => Ok(true),
//@canary find-match-error-swallowed :: datalog::Rule::find_match :: Some(Err(e)) => Err(Execution::Expression(e)), ==>> Some(Err(e)) => Ok(false),
//@canary derived-fact-dropped :: datalog::World::run_with_limits :: new_facts.insert(&origin, fact); ==>> {}
//@canary fixpoint-test-weakened :: datalog::World::run_with_limits :: if self.facts.len() == len { ==>> if self.facts.len() >= len {
//@canary expression-error-swallowed :: datalog::World::run_with_limits :: return Err(Execution::Expression(e)); ==>> {}
//@canary rule-origin-constant :: datalog::World::run_with_limits :: rule.apply(it.clone(), *origin, ==>> rule.apply(it.clone(), 0,
//@canary-requires datalog::World::run_with_limits
//@canary-requires datalog::Rule::check_match_all
//@canary-requires datalog::Rule::find_match
} // verus!
fn main() {}
