// =======================================================================================
// Unit `engine` — datalog/mod.rs, the functions AROUND the join iterator (C04):
//   Rule::find_match, Rule::check_match_all, World::query_match, World::query_match_all, World::query_rule.
// The join itself (CombineIt, a recursive Box<dyn Iterator>) and Rule::apply (map / filter_map closures over it)
// are outside Verus: they enter as ORACLES — opaque iterators whose sequence of items is an uninterpreted
// function of their arguments (rule A2). Expression evaluation is an oracle too (proved in unit `expr`).
// What is proved is how these functions turn the oracle's items into a decision.
// =======================================================================================
#![feature(allocator_api)]
#![allow(unused)]
use vstd::prelude::*;
verus! {
//@include std_prelude.rs
//@include error_mod.rs

pub mod datalog {
    use vstd::prelude::*;
    use crate::verif_std::*;
    use crate::error;
    use crate::error::Execution;
    use std::collections::{BTreeMap, BTreeSet, HashMap, HashSet};
    pub type SymbolIndex = u64;
    broadcast use {crate::error::qm_axioms, vstd::std_specs::hash::group_hash_axioms};

    //@extract biscuit-auth/src/datalog/mod.rs :: enum Term
    //@end
    //@extract biscuit-auth/src/datalog/mod.rs :: enum MapKey
    //@end
    //@extract biscuit-auth/src/datalog/mod.rs :: struct Predicate
    //@end
    //@extract biscuit-auth/src/datalog/mod.rs :: struct Fact
    //@end
    //@extract biscuit-auth/src/datalog/mod.rs :: struct Rule
    //@end
    //@extract biscuit-auth/src/datalog/mod.rs :: struct World
    //@end
    // stand-ins (opaque)
    #[verifier::external_body] pub struct Expression { _p: u8 }
    #[verifier::external_body] pub struct Scope { _p: u8 }
    #[verifier::external_body] pub struct SymbolTable { _p: u8 }
    #[verifier::external_body] pub struct TemporarySymbolTable { _p: u8 }
    #[verifier::external_body] pub struct ExternFunc { _p: u8 }
    #[verifier::external_body] pub struct Origin { _p: u8 }
    #[verifier::external_body] pub struct TrustedOrigins { _p: u8 }
    #[verifier::external_body] pub struct FactSet { _p: u8 }
    #[verifier::external_body] pub struct RuleSet { _p: u8 }
    #[verifier::external_body] pub struct MatchedVariables { _p: u8 }
    #[verifier::external_body] pub struct FactIt { _p: u8 }
    impl Clone for FactIt { #[verifier::external_body] fn clone(&self) -> (r: Self) ensures r == *self { unimplemented!() } }

    // ---- opaque iterator (rule A2): yields exactly the uninterpreted sequence verif_seq_rem(it) ----
    #[verifier::external_body]
    #[verifier::reject_recursive_types(T)]
    pub struct VerifSeqIter<T> { _p: core::marker::PhantomData<T> }
    pub uninterp spec fn verif_seq_rem<T>(it: VerifSeqIter<T>) -> Seq<T>;
    impl<T> Iterator for VerifSeqIter<T> {
        type Item = T;
        #[verifier::external_body]
        fn next(&mut self) -> (r: Option<T>)
            ensures verif_seq_rem(*old(self)).len() == 0 ==> r is None && verif_seq_rem(*final(self)).len() == 0,
                    verif_seq_rem(*old(self)).len() > 0 ==> r == Some(verif_seq_rem(*old(self))[0]) && verif_seq_rem(*final(self)) == verif_seq_rem(*old(self)).skip(1)
        { unimplemented!() }
    }
    impl<T> vstd::std_specs::iter::IteratorSpecImpl for VerifSeqIter<T> {
        open spec fn obeys_prophetic_iter_laws(&self) -> bool { true }
        open spec fn remaining(&self) -> Seq<T> { verif_seq_rem(*self) }
        open spec fn will_return_none(&self) -> bool { true }
        open spec fn decrease(&self) -> Option<nat> { Some(verif_seq_rem(*self).len()) }
        open spec fn peek(&self, i: int) -> Option<T> { if 0 <= i < verif_seq_rem(*self).len() { Some(verif_seq_rem(*self)[i]) } else { None } }
    }

    // ---- ORACLES -------------------------------------------------------------------------------
    // the facts of `facts` visible under the trusted set `scope`
    pub uninterp spec fn fact_it_of(facts: FactSet, scope: TrustedOrigins) -> FactIt;
    // the bindings produced by the join of `body` over the visible facts, with their origins, in the iterator's order
    pub uninterp spec fn combos(vars: MatchedVariables, body: Seq<Predicate>, facts: FactIt, symbols: SymbolTable) -> Seq<(Origin, HashMap<u32, Term>)>;
    // the items of Rule::apply: the facts a rule derives (or the expression error met on the way)
    pub uninterp spec fn apply_seq(rule: Rule, facts: FactIt, origin: usize, symbols: SymbolTable, ext: HashMap<String, ExternFunc>) -> Seq<Result<(Origin, Fact), error::Expression>>;
    pub uninterp spec fn mv_of(rule: Rule) -> MatchedVariables;
    // evaluation of one expression under bindings (unit `expr`), threaded through the temporary symbol table
    pub uninterp spec fn eval_res(e: Expression, vars: HashMap<u32, Term>, tmp: TemporarySymbolTable, ext: HashMap<String, ExternFunc>) -> Result<Term, error::Expression>;
    pub uninterp spec fn tmp_next(e: Expression, vars: HashMap<u32, Term>, tmp: TemporarySymbolTable, ext: HashMap<String, ExternFunc>) -> TemporarySymbolTable;
    pub uninterp spec fn tmp_new(symbols: SymbolTable) -> TemporarySymbolTable;
    // the content of a fact set
    pub uninterp spec fn fs_view(f: FactSet) -> Set<(Origin, Fact)>;

    impl FactSet {
        #[verifier::external_body]
        pub fn iterator<'a>(&'a self, scope: &'a TrustedOrigins) -> (r: FactIt) ensures r == fact_it_of(*self, *scope) { unimplemented!() }
        #[verifier::external_body]
        pub fn insert(&mut self, origin: &Origin, fact: Fact) ensures fs_view(*final(self)) == fs_view(*old(self)).insert((*origin, fact)) { unimplemented!() }
        #[verifier::external_body]
        pub fn default() -> (r: FactSet) ensures fs_view(r) == Set::<(Origin, Fact)>::empty() { unimplemented!() }
    }
    impl TemporarySymbolTable {
        #[verifier::external_body]
        pub fn new(symbols: &SymbolTable) -> (r: TemporarySymbolTable) ensures r == tmp_new(*symbols) { unimplemented!() }
    }
    impl MatchedVariables {
        #[verifier::external_body]
        pub fn new(import: HashSet<u32>) -> (r: MatchedVariables) ensures r == mv_from(import) { unimplemented!() }
    }
    pub uninterp spec fn mv_from(import: HashSet<u32>) -> MatchedVariables;
    pub uninterp spec fn vars_of(rule: Rule) -> HashSet<u32>;
    impl Expression {
        #[verifier::external_body]
        pub fn evaluate(&self, values: &HashMap<u32, Term>, symbols: &mut TemporarySymbolTable, extern_funcs: &HashMap<String, ExternFunc>) -> (r: Result<Term, error::Expression>)
            ensures r == eval_res(*self, *values, *old(symbols), *extern_funcs), *final(symbols) == tmp_next(*self, *values, *old(symbols), *extern_funcs)
        { unimplemented!() }
    }
    // rule A2: `CombineIt::new(variables, &self.body, fact_it, symbols)`
    #[verifier::external_body]
    pub fn verif_combine<'a>(variables: MatchedVariables, body: &'a Vec<Predicate>, facts: FactIt, symbols: &'a SymbolTable) -> (r: VerifSeqIter<(Origin, HashMap<u32, Term>)>)
        ensures verif_seq_rem(r) == combos(variables, body@, facts, *symbols)
    { unimplemented!() }

    // ---- specification of the decisions ---------------------------------------------------------
    // all expressions of a rule on one binding: Ok(true) all true, Ok(false) the first non-true one is false
    pub open spec fn exprs_spec(exprs: Seq<Expression>, j: int, vars: HashMap<u32, Term>, tmp: TemporarySymbolTable, ext: HashMap<String, ExternFunc>) -> Result<bool, Execution>
        decreases exprs.len() - j
    {
        if j < 0 || j >= exprs.len() { Ok(true) }
        else {
            match eval_res(exprs[j], vars, tmp, ext) {
                Ok(Term::Bool(b)) => if b { exprs_spec(exprs, j + 1, vars, tmp_next(exprs[j], vars, tmp, ext), ext) } else { Ok(false) },
                Ok(_) => Err(Execution::Expression(error::Expression::InvalidType)),
                Err(e) => Err(Execution::Expression(e)),
            }
        }
    }
    // `check all`: there is at least one match of the body and every match satisfies every expression
    pub open spec fn cma_spec(cs: Seq<(Origin, HashMap<u32, Term>)>, k: int, exprs: Seq<Expression>, symbols: SymbolTable, ext: HashMap<String, ExternFunc>) -> Result<bool, Execution>
        decreases cs.len() - k
    {
        if k < 0 || k >= cs.len() { Ok(cs.len() > 0) }
        else {
            match exprs_spec(exprs, 0, cs[k].1, tmp_new(symbols), ext) {
                Ok(b) => if b { cma_spec(cs, k + 1, exprs, symbols, ext) } else { Ok(false) },
                Err(e) => Err(e),
            }
        }
    }
    pub open spec fn check_all_spec(rule: Rule, facts: FactSet, scope: TrustedOrigins, symbols: SymbolTable, ext: HashMap<String, ExternFunc>) -> Result<bool, Execution> {
        cma_spec(combos(mv_from(vars_of(rule)), rule.body@, fact_it_of(facts, scope), symbols), 0, rule.expressions@, symbols, ext)
    }
    // `check if` / policies: the first item of the rule's application decides
    pub open spec fn find_spec(rule: Rule, facts: FactSet, origin: usize, scope: TrustedOrigins, symbols: SymbolTable, ext: HashMap<String, ExternFunc>) -> Result<bool, Execution> {
        let s = apply_seq(rule, fact_it_of(facts, scope), origin, symbols, ext);
        if s.len() == 0 { Ok(false) } else { match s[0] { Ok(_) => Ok(true), Err(e) => Err(Execution::Expression(e)) } }
    }
    impl Rule {
        #[verifier::external_body]
        pub fn variables_set(&self) -> (r: HashSet<u32>) ensures r == vars_of(*self) { unimplemented!() }
        // ORACLE: Rule::apply
        #[verifier::external_body]
        pub fn apply<'a>(&'a self, facts: FactIt, rule_origin: usize, symbols: &'a SymbolTable, extern_funcs: &'a HashMap<String, ExternFunc>) -> (r: VerifSeqIter<Result<(Origin, Fact), error::Expression>>)
            ensures verif_seq_rem(r) == apply_seq(*self, facts, rule_origin, *symbols, *extern_funcs)
        { unimplemented!() }

        //@extract biscuit-auth/src/datalog/mod.rs :: impl Rule :: fn find_match
        //@ ensures decision: r == find_spec(*self, *facts, origin, *scope, *symbols, *extern_funcs)
        //@end

        //@extract biscuit-auth/src/datalog/mod.rs :: impl Rule :: fn check_match_all
        //@ attr #[verifier::loop_isolation(false)]
        //@ sub CombineIt::new\(variables, &self\.body, fact_it, symbols\) => verif_combine(variables, &self.body, fact_it, symbols)
        //@ ensures decision: r == check_all_spec(*self, *facts, *scope, *symbols, *extern_funcs)
        //@ loop 0 ghost it
        //@ loop 0 invariant found: found == (it.index@ > 0)
        //@ loop 0 invariant seq: it.seq() == combos(mv_from(vars_of(*self)), self.body@, fact_it_of(*facts, *scope), *symbols)
        //@ loop 0 invariant spec: check_all_spec(*self, *facts, *scope, *symbols, *extern_funcs) == cma_spec(it.seq(), it.index@, self.expressions@, *symbols, *extern_funcs)
        //@ loop 1 ghost jt
        //@ loop 1 invariant seq: jt.seq().len() == self.expressions@.len() && forall|i: int| 0 <= i < self.expressions@.len() ==> *(#[trigger] jt.seq()[i]) == self.expressions@[i]
        //@ loop 1 invariant spec: exprs_spec(self.expressions@, 0, variables, tmp_new(*symbols), *extern_funcs) == exprs_spec(self.expressions@, jt.index@, variables, temporary_symbols, *extern_funcs)
        //@end
    }

    impl World {
        //@extract biscuit-auth/src/datalog/mod.rs :: impl World :: fn query_match
        //@ ensures decision: r == find_spec(rule, self.facts, origin, *scope, *symbols, self.extern_funcs)
        //@end
        //@extract biscuit-auth/src/datalog/mod.rs :: impl World :: fn query_match_all
        //@ ensures decision: r == check_all_spec(rule, self.facts, *scope, *symbols, self.extern_funcs)
        //@end
    }
}
//@canary check-all-vacuous :: datalog::Rule::check_match_all :: Ok(found) ==>> Ok(true)
//@canary check-all-false-ignored :: datalog::Rule::check_match_all :: return Ok(false); ==>> {}
//@canary check-all-nonbool-accepted :: datalog::Rule::check_match_all :: Ok(_) => {\n                        return Err(error::Execution::Expression(error::Expression::InvalidType))\n                    } ==>> Ok(_) => {}
//@canary find-match-inverted :: datalog::Rule::find_match :: None => Ok(false), ==>> None => Ok(true),
//@canary find-match-error-swallowed :: datalog::Rule::find_match :: Some(Err(e)) => Err(Execution::Expression(e)), ==>> Some(Err(e)) => Ok(false),
//@canary-requires datalog::Rule::check_match_all
//@canary-requires datalog::Rule::find_match
} // verus!
fn main() {}
