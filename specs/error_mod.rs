// ---------------------------------------------------------------------------------------
// error_mod.rs — the crate's `error` module: every enum is cut out of error.rs; the
// `From` impls used by `?` are cut out too and proved against `from_spec`; what is ASSUMED
// is only the link between `?` and `From::from` (axioms `qm_*`, vstd leaves it abstract).
// ---------------------------------------------------------------------------------------
pub mod biscuit_parser {
    pub mod error {
        use vstd::prelude::*;
        // stand-in for biscuit_parser::error::LanguageError (opaque here)
        #[verifier::external_body]
        pub struct LanguageError { _p: u8 }
    }
}
pub mod error {
    use vstd::prelude::*;
    use crate::biscuit_parser;
    use vstd::std_specs::control_flow::spec_from;

    //@extract biscuit-auth/src/error.rs :: enum Token
    //@end
    //@extract biscuit-auth/src/error.rs :: enum Base64Error
    //@end
    //@extract biscuit-auth/src/error.rs :: enum Format
    //@end
    //@extract biscuit-auth/src/error.rs :: enum Signature
    //@end
    //@extract biscuit-auth/src/error.rs :: enum Logic
    //@end
    //@extract biscuit-auth/src/error.rs :: enum MatchedPolicy
    //@end
    //@extract biscuit-auth/src/error.rs :: enum FailedCheck
    //@end
    //@extract biscuit-auth/src/error.rs :: struct FailedBlockCheck
    //@end
    //@extract biscuit-auth/src/error.rs :: struct FailedAuthorizerCheck
    //@end
    //@extract biscuit-auth/src/error.rs :: enum Execution
    //@end
    //@extract biscuit-auth/src/error.rs :: enum Expression
    //@end
    //@extract biscuit-auth/src/error.rs :: enum RunLimit
    //@end

    // `unwrap` / `expect` need `E: Debug` (formatting only)
    impl core::fmt::Debug for Format {
        #[verifier::external_body]
        fn fmt(&self, f: &mut core::fmt::Formatter<'_>) -> core::fmt::Result { unimplemented!() }
    }
    impl core::fmt::Debug for Token {
        #[verifier::external_body]
        fn fmt(&self, f: &mut core::fmt::Formatter<'_>) -> core::fmt::Result { unimplemented!() }
    }
    impl vstd::std_specs::convert::FromSpecImpl<Format> for Token {
        open spec fn obeys_from_spec() -> bool { true }
        open spec fn from_spec(v: Format) -> Token { Token::Format(v) }
    }
    impl From<Format> for Token {
        //@extract biscuit-auth/src/error.rs :: impl From<Format> for Token :: fn from
        //@end
    }
    impl vstd::std_specs::convert::FromSpecImpl<Logic> for Token {
        open spec fn obeys_from_spec() -> bool { true }
        open spec fn from_spec(v: Logic) -> Token { Token::FailedLogic(v) }
    }
    impl From<Logic> for Token {
        //@extract biscuit-auth/src/error.rs :: impl From<Logic> for Token :: fn from
        //@end
    }
    impl vstd::std_specs::convert::FromSpecImpl<Execution> for Token {
        open spec fn obeys_from_spec() -> bool { true }
        open spec fn from_spec(v: Execution) -> Token {
            match v { Execution::RunLimit(l) => Token::RunLimit(l), Execution::Expression(e) => Token::Execution(e) }
        }
    }
    impl From<Execution> for Token {
        //@extract biscuit-auth/src/error.rs :: impl From<Execution> for Token :: fn from
        //@end
    }

    impl crate::verif_std::VerifInto<Token> for Format {
        open spec fn into_req(self) -> bool { true }
        open spec fn into_spec(self) -> Token { Token::Format(self) }
        fn verif_into(self) -> (r: Token) { Token::from(self) }
    }
    impl crate::verif_std::VerifInto<Token> for Logic {
        open spec fn into_req(self) -> bool { true }
        open spec fn into_spec(self) -> Token { Token::FailedLogic(self) }
        fn verif_into(self) -> (r: Token) { Token::from(self) }
    }

    // ASSUMED: `expr?` converts the error with `From::from` (vstd's `spec_from` is abstract).
    pub broadcast axiom fn qm_format_token(e: Format, t: Token)
        ensures #[trigger] spec_from::<Token, Format>(e, t) ==> t == Token::Format(e);
    pub broadcast axiom fn qm_logic_token(e: Logic, t: Token)
        ensures #[trigger] spec_from::<Token, Logic>(e, t) ==> t == Token::FailedLogic(e);
    pub broadcast axiom fn qm_execution_token(e: Execution, t: Token)
        ensures #[trigger] spec_from::<Token, Execution>(e, t) ==> t == (match e {
            Execution::RunLimit(l) => Token::RunLimit(l), Execution::Expression(x) => Token::Execution(x) });
    pub broadcast group qm_axioms { qm_format_token, qm_logic_token, qm_execution_token }
}
