// =======================================================================================
// Unit `expr` — datalog/expression.rs (C06): Unary::evaluate, Binary::evaluate, Expression::evaluate.
// Arms working on strings, byte arrays, sets, arrays, maps and extern functions are abstracted (rule A3):
// which operand kinds they accept stays under contract, what they return does not.
// =======================================================================================
#![feature(allocator_api)]
#![allow(unused)]
use vstd::prelude::*;
verus! {
//@include std_prelude.rs
//@include error_mod.rs

pub mod datalog {
    use vstd::prelude::*;
    use crate::verif_std::*;
    use crate::error;
    use std::collections::{BTreeMap, BTreeSet, HashMap};
    use crate::espec::*;
    pub type SymbolIndex = u64;
    broadcast use {crate::error::qm_axioms, vstd::std_specs::hash::group_hash_axioms};

    //@extract biscuit-auth/src/datalog/mod.rs :: enum Term
    //@end
    //@extract biscuit-auth/src/datalog/mod.rs :: enum MapKey
    //@end
    //@extract biscuit-auth/src/datalog/expression.rs :: struct Expression
    //@end
    //@extract biscuit-auth/src/datalog/expression.rs :: enum Op
    //@end
    //@extract biscuit-auth/src/datalog/expression.rs :: enum Unary
    //@end
    //@extract biscuit-auth/src/datalog/expression.rs :: enum Binary
    //@end
    //@extract biscuit-auth/src/datalog/expression.rs :: enum StackElem
    //@end
    // ASSUMED: derived Clone of Term / Op is a structural copy; comparison traits are total orders
    impl Clone for Term { #[verifier::external_body] fn clone(&self) -> (r: Self) ensures r == *self { unimplemented!() } }
    impl Clone for Op { #[verifier::external_body] fn clone(&self) -> (r: Self) ensures r == *self { unimplemented!() } }
    impl PartialEq for Term { #[verifier::external_body] fn eq(&self, o: &Self) -> bool { unimplemented!() } }
    impl Eq for Term {}
    impl PartialOrd for Term { #[verifier::external_body] fn partial_cmp(&self, o: &Self) -> Option<core::cmp::Ordering> { unimplemented!() } }
    impl Ord for Term { #[verifier::external_body] fn cmp(&self, o: &Self) -> core::cmp::Ordering { unimplemented!() } }
    impl PartialEq for MapKey { #[verifier::external_body] fn eq(&self, o: &Self) -> bool { unimplemented!() } }
    impl Eq for MapKey {}
    impl PartialOrd for MapKey { #[verifier::external_body] fn partial_cmp(&self, o: &Self) -> Option<core::cmp::Ordering> { unimplemented!() } }
    impl Ord for MapKey { #[verifier::external_body] fn cmp(&self, o: &Self) -> core::cmp::Ordering { unimplemented!() } }

    // stand-ins (opaque): the temporary symbol table and extern functions
    #[verifier::external_body] pub struct TemporarySymbolTable { _p: u8 }
    #[verifier::external_body] pub struct ExternFunc { _p: u8 }
    // rule A3: the body of an abstracted arm — any result, no panic claimed
    #[verifier::external_body]
    pub fn verif_opaque_arm() -> Result<Term, error::Expression> { unimplemented!() }

    impl Unary {
        //@extract biscuit-auth/src/datalog/expression.rs :: impl Unary :: fn evaluate
        //@ abstract_arms 0 :: Term::Str|Term::Bytes|Term::Set|Term::Array|Term::Map|symbols|extern_funcs ==>> verif_opaque_arm()
        //@ ensures negate: self is Negate && value is Bool ==> r == Ok::<Term, error::Expression>(Term::Bool(!value->Bool_0))
        //@ ensures parens: self is Parens ==> r == Ok::<Term, error::Expression>(value)
        //@ ensures strict: r is Ok ==> allowed_unary(*self, kind(value))
        //@end
    }
    impl Binary {
        //@extract biscuit-auth/src/datalog/expression.rs :: impl Binary :: fn evaluate
        //@ abstract_arms 0 :: Term::Bytes|Term::Set|Term::Array|Term::Map|symbols|extern_funcs ==>> verif_opaque_arm()
        //@ sub Term::Bool\(i & j\) => Term::Bool(i && j)
        //@ sub Term::Bool\(i \| j\) => Term::Bool(i || j)
        //@ ensures add: self is Add && left is Integer && right is Integer ==> r == checked(left->Integer_0 + right->Integer_0)
        //@ ensures sub: self is Sub && left is Integer && right is Integer ==> r == checked(left->Integer_0 - right->Integer_0)
        //@ ensures mul: self is Mul && left is Integer && right is Integer ==> r == checked(left->Integer_0 * right->Integer_0)
        //@ ensures div_zero: self is Div && left is Integer && right is Integer && right->Integer_0 == 0 ==> r == Err::<Term, error::Expression>(error::Expression::DivideByZero)
        //@ ensures div_overflow: self is Div && left is Integer && right is Integer && left->Integer_0 == i64::MIN && right->Integer_0 == -1 ==> r is Err
        //@ ensures compare: left is Integer && right is Integer ==> (self is LessThan ==> r == Ok::<Term, error::Expression>(Term::Bool(left->Integer_0 < right->Integer_0))) && (self is GreaterThan ==> r == Ok::<Term, error::Expression>(Term::Bool(left->Integer_0 > right->Integer_0))) && (self is LessOrEqual ==> r == Ok::<Term, error::Expression>(Term::Bool(left->Integer_0 <= right->Integer_0))) && (self is GreaterOrEqual ==> r == Ok::<Term, error::Expression>(Term::Bool(left->Integer_0 >= right->Integer_0)))
        //@ ensures int_equal: left is Integer && right is Integer ==> ((self is Equal || self is HeterogeneousEqual) ==> r == Ok::<Term, error::Expression>(Term::Bool(left->Integer_0 == right->Integer_0))) && ((self is NotEqual || self is HeterogeneousNotEqual) ==> r == Ok::<Term, error::Expression>(Term::Bool(left->Integer_0 != right->Integer_0)))
        //@ ensures bool_ops: left is Bool && right is Bool ==> (self is And ==> r == Ok::<Term, error::Expression>(Term::Bool(left->Bool_0 && right->Bool_0))) && (self is Or ==> r == Ok::<Term, error::Expression>(Term::Bool(left->Bool_0 || right->Bool_0)))
        //@ ensures heterogeneous: kind(left) != kind(right) && kind(left) != 0 && kind(right) != 0 && !composite(left) && !composite(right) ==> (self is HeterogeneousEqual ==> r == Ok::<Term, error::Expression>(Term::Bool(false))) && (self is HeterogeneousNotEqual ==> r == Ok::<Term, error::Expression>(Term::Bool(true)))
        //@ ensures strict: r is Ok ==> allowed_binary(*self, kind(left), kind(right))
        //@ ensures wrong_type: !allowed_binary(*self, kind(left), kind(right)) ==> r == Err::<Term, error::Expression>(error::Expression::InvalidType)
        //@end
    }
}

pub mod datalog2 {
    // second part of datalog/expression.rs: the stack machine
    use vstd::prelude::*;
    use crate::verif_std::*;
    use crate::error;
    use crate::datalog::*;
    use std::collections::{BTreeMap, BTreeSet, HashMap, HashSet};
    use crate::espec::*;
    broadcast use {crate::error::qm_axioms, vstd::std_specs::hash::group_hash_axioms};

    // `values.keys().collect::<HashSet<_>>().intersection(&params.iter().collect()).next().is_some()`:
    // "a closure parameter is already bound" (ASSUMED to compute exactly that)
    pub open spec fn shadows(values: HashMap<u32, Term>, params: Seq<u32>) -> bool {
        exists|i: int| 0 <= i < params.len() && values@.dom().contains(#[trigger] params[i])
    }
    #[verifier::external_body]
    pub fn verif_shadows(values: &HashMap<u32, Term>, params: &Vec<u32>) -> (r: bool) ensures r == shadows(*values, params@) { unimplemented!() }
    // printing (fmt): ASSUMED total
    #[verifier::external_body] pub struct SymbolTable { _p: u8 }
    impl SymbolTable {
        #[verifier::external_body] pub fn print_term(&self, t: &Term) -> String { unimplemented!() }
    }
    impl Unary {
        #[verifier::external_body] pub fn print(&self, value: String, symbols: &SymbolTable) -> String { unimplemented!() }
    }
    impl Binary {
        #[verifier::external_body] pub fn print(&self, left: String, right: String, symbols: &SymbolTable) -> String { unimplemented!() }
    }
    // `params.iter().map(|s| symbols.print_term(&Term::Variable(*s))).collect::<Vec<_>>().join(", ")`
    #[verifier::external_body] pub fn verif_join_params(params: &Vec<u32>, symbols: &SymbolTable) -> String { unimplemented!() }
    impl Clone for StackElem { #[verifier::external_body] fn clone(&self) -> (r: Self) ensures r == *self { unimplemented!() } }

    // ---- closures ------------------------------------------------------------------------------
    // Rule A4 (recursive call as oracle): inside evaluate_with_closure the recursive evaluation of the closure
    // body `e.evaluate(values, symbols, extern_func)` is replaced by `verif_eval_oracle(&e, ..)`: it returns what
    // the uninterpreted function eval_res says for (ops, bindings, symbol-table state, extern functions) and moves the
    // symbol table to sym_next(..). ASSUMED: evaluation is a function of those four arguments.
    pub uninterp spec fn eval_res(ops: Seq<Op>, values: Map<u32, Term>, sym: TemporarySymbolTable, ext: HashMap<String, ExternFunc>) -> Result<Term, error::Expression>;
    pub uninterp spec fn sym_next(ops: Seq<Op>, values: Map<u32, Term>, sym: TemporarySymbolTable, ext: HashMap<String, ExternFunc>) -> TemporarySymbolTable;
    #[verifier::external_body]
    pub fn verif_eval_oracle(e: &Expression, values: &HashMap<u32, Term>, symbols: &mut TemporarySymbolTable, ext: &HashMap<String, ExternFunc>) -> (r: Result<Term, error::Expression>)
        ensures r == eval_res(e.ops@, values@, *old(symbols), *ext), *final(symbols) == sym_next(e.ops@, values@, *old(symbols), *ext)
    { unimplemented!() }

    // R21: slice patterns `[]` / `[p]`
    pub enum VerifSlice1<'a, T> { Empty, One(&'a T), Many }
    #[verifier::external_body]
    pub fn verif_slice1<'a, T>(s: &'a [T]) -> (r: VerifSlice1<'a, T>)
        ensures match r { VerifSlice1::Empty => s@.len() == 0, VerifSlice1::One(x) => s@.len() == 1 && *x == s@[0], VerifSlice1::Many => s@.len() >= 2 }
    { match s { [] => VerifSlice1::Empty, [x] => VerifSlice1::One(x), _ => VerifSlice1::Many } }

    // iteration order of a set / a map (ASSUMED: BTreeSet::iter / BTreeMap::iter enumerate exactly these sequences)
    pub uninterp spec fn set_elems(s: BTreeSet<Term>) -> Seq<Term>;
    pub uninterp spec fn map_elems(m: BTreeMap<MapKey, Term>) -> Seq<Term>;
    pub uninterp spec fn pair_term(k: Term, v: Term) -> Term;      // the two-element array [key, value]
    pub open spec fn key_term(k: MapKey) -> Term { match k { MapKey::Integer(i) => Term::Integer(i), MapKey::Str(i) => Term::Str(i) } }
    #[verifier::external_body]
    pub fn verif_pair_term(k: Term, v: Term) -> (r: Term) ensures r == pair_term(k, v) { unimplemented!() }

    #[verifier::external_body]
    #[verifier::reject_recursive_types(T)]
    pub struct VerifSeqIter<T> { _p: core::marker::PhantomData<T> }
    pub uninterp spec fn verif_seq_rem<T>(it: VerifSeqIter<T>) -> Seq<T>;
    impl<T> Iterator for VerifSeqIter<T> {
        type Item = T;
        #[verifier::external_body]
        fn next(&mut self) -> Option<T> { unimplemented!() }
    }
    impl<T> vstd::std_specs::iter::IteratorSpecImpl for VerifSeqIter<T> {
        open spec fn obeys_prophetic_iter_laws(&self) -> bool { true }
        open spec fn remaining(&self) -> Seq<T> { verif_seq_rem(*self) }
        open spec fn will_return_none(&self) -> bool { true }
        open spec fn decrease(&self) -> Option<nat> { Some(verif_seq_rem(*self).len()) }
        open spec fn peek(&self, i: int) -> Option<T> { if 0 <= i < verif_seq_rem(*self).len() { Some(verif_seq_rem(*self)[i]) } else { None } }
    }
    #[verifier::external_body]
    pub fn verif_set_iter<'a>(s: &'a BTreeSet<Term>) -> (r: VerifSeqIter<&'a Term>)
        ensures verif_seq_rem(r).len() == set_elems(*s).len(),
                forall|i: int| 0 <= i < set_elems(*s).len() ==> *(#[trigger] verif_seq_rem(r)[i]) == set_elems(*s)[i]
    { unimplemented!() }
    #[verifier::external_body]
    pub fn verif_map_iter<'a>(m: &'a BTreeMap<MapKey, Term>) -> (r: VerifSeqIter<(&'a MapKey, &'a Term)>)
        ensures verif_seq_rem(r).len() == map_elems(*m).len(),
                forall|i: int| 0 <= i < map_elems(*m).len() ==> pair_term(key_term(*(#[trigger] verif_seq_rem(r)[i]).0), *verif_seq_rem(r)[i].1) == map_elems(*m)[i]
    { unimplemented!() }

    // all / any over a sequence of elements: evaluate the body with exactly `p` bound to the element, in order,
    // stop at the first element that decides; a non-boolean body is a type error; an error of the body is the result
    pub open spec fn quant_spec(is_all: bool, elems: Seq<Term>, i: int, right: Seq<Op>, p: u32, values: Map<u32, Term>,
                                sym: TemporarySymbolTable, ext: HashMap<String, ExternFunc>) -> Result<Term, error::Expression>
        decreases elems.len() - i
    {
        if i < 0 || i >= elems.len() { Ok(Term::Bool(is_all)) }
        else {
            let v1 = values.insert(p, elems[i]);
            match eval_res(right, v1, sym, ext) {
                Err(e) => Err(e),
                Ok(Term::Bool(b)) => if b == is_all { quant_spec(is_all, elems, i + 1, right, p, values, sym_next(right, v1, sym, ext), ext) }
                                     else { Ok(Term::Bool(!is_all)) },
                Ok(_) => Err(error::Expression::InvalidType),
            }
        }
    }
    // the closure-taking operators of the Biscuit specification
    pub open spec fn closure_spec(op: Binary, left: Term, right: Seq<Op>, params: Seq<u32>, values: Map<u32, Term>,
                                  sym: TemporarySymbolTable, ext: HashMap<String, ExternFunc>) -> Result<Term, error::Expression> {
        if params.len() == 0 {
            match (op, left) {
                (Binary::LazyOr, Term::Bool(b)) => if b { Ok(Term::Bool(true)) } else { eval_res(right, values, sym, ext) },
                (Binary::LazyAnd, Term::Bool(b)) => if !b { Ok(Term::Bool(false)) } else { eval_res(right, values, sym, ext) },
                _ => Err(error::Expression::InvalidType),
            }
        } else if params.len() == 1 {
            match (op, left) {
                (Binary::All, Term::Set(s)) => quant_spec(true, set_elems(s), 0, right, params[0], values, sym, ext),
                (Binary::Any, Term::Set(s)) => quant_spec(false, set_elems(s), 0, right, params[0], values, sym, ext),
                (Binary::All, Term::Array(a)) => quant_spec(true, a@, 0, right, params[0], values, sym, ext),
                (Binary::Any, Term::Array(a)) => quant_spec(false, a@, 0, right, params[0], values, sym, ext),
                (Binary::All, Term::Map(m)) => quant_spec(true, map_elems(m), 0, right, params[0], values, sym, ext),
                (Binary::Any, Term::Map(m)) => quant_spec(false, map_elems(m), 0, right, params[0], values, sym, ext),
                _ => Err(error::Expression::InvalidType),
            }
        } else { Err(error::Expression::InvalidType) }
    }

    impl Binary {
        //@extract biscuit-auth/src/datalog/expression.rs :: impl Binary :: fn evaluate_with_closure
        //@ rewrites R21
        //@ attr #[verifier::loop_isolation(false)]
        //@ sub e\.evaluate\(values, symbols, extern_func\) => verif_eval_oracle(&e, values, symbols, extern_func)
        //@ sub set_values\.iter\(\) => verif_set_iter(&set_values)
        //@ sub map\.iter\(\) => verif_map_iter(&map)
        //@ sub Term::Array\(vec!\[key, value\.clone\(\)\]\) => verif_pair_term(key, value.clone())
        //@ requires no_shadow: forall|i: int| 0 <= i < params@.len() ==> !old(values)@.contains_key(#[trigger] params@[i])
        //@ ensures semantics: r == closure_spec(*self, left, right@, params@, old(values)@, *old(symbols), *extern_func)
        //@ ensures bindings_restored: final(values)@ == old(values)@
        //@ loop 0 ghost it
        //@ ghost loop 0 end :: proof { assert(values@ =~= old(values)@); }
        //@ loop 0 invariant frame: values@ == old(values)@ && !values@.contains_key(*param)
        //@ loop 0 invariant elems: it.seq().len() == set_elems(set_values).len() && forall|k: int| 0 <= k < it.seq().len() ==> *(#[trigger] it.seq()[k]) == set_elems(set_values)[k]
        //@ loop 0 invariant spec: quant_spec(true, set_elems(set_values), 0, right@, *param, old(values)@, *old(symbols), *extern_func) == quant_spec(true, set_elems(set_values), it.index@, right@, *param, values@, *symbols, *extern_func)
        //@ loop 1 ghost it
        //@ ghost loop 1 end :: proof { assert(values@ =~= old(values)@); }
        //@ loop 1 invariant frame: values@ == old(values)@ && !values@.contains_key(*param)
        //@ loop 1 invariant elems: it.seq().len() == set_elems(set_values).len() && forall|k: int| 0 <= k < it.seq().len() ==> *(#[trigger] it.seq()[k]) == set_elems(set_values)[k]
        //@ loop 1 invariant spec: quant_spec(false, set_elems(set_values), 0, right@, *param, old(values)@, *old(symbols), *extern_func) == quant_spec(false, set_elems(set_values), it.index@, right@, *param, values@, *symbols, *extern_func)
        //@ loop 2 ghost it
        //@ ghost loop 2 end :: proof { assert(values@ =~= old(values)@); }
        //@ loop 2 invariant frame: values@ == old(values)@ && !values@.contains_key(*param)
        //@ loop 2 invariant elems: it.seq().len() == array@.len() && forall|k: int| 0 <= k < it.seq().len() ==> *(#[trigger] it.seq()[k]) == array@[k]
        //@ loop 2 invariant spec: quant_spec(true, array@, 0, right@, *param, old(values)@, *old(symbols), *extern_func) == quant_spec(true, array@, it.index@, right@, *param, values@, *symbols, *extern_func)
        //@ loop 3 ghost it
        //@ ghost loop 3 end :: proof { assert(values@ =~= old(values)@); }
        //@ loop 3 invariant frame: values@ == old(values)@ && !values@.contains_key(*param)
        //@ loop 3 invariant elems: it.seq().len() == array@.len() && forall|k: int| 0 <= k < it.seq().len() ==> *(#[trigger] it.seq()[k]) == array@[k]
        //@ loop 3 invariant spec: quant_spec(false, array@, 0, right@, *param, old(values)@, *old(symbols), *extern_func) == quant_spec(false, array@, it.index@, right@, *param, values@, *symbols, *extern_func)
        //@ loop 4 ghost it
        //@ ghost loop 4 end :: proof { assert(values@ =~= old(values)@); }
        //@ loop 4 invariant frame: values@ == old(values)@ && !values@.contains_key(*param)
        //@ loop 4 invariant elems: it.seq().len() == map_elems(map).len() && forall|k: int| 0 <= k < it.seq().len() ==> pair_term(key_term(*(#[trigger] it.seq()[k]).0), *it.seq()[k].1) == map_elems(map)[k]
        //@ loop 4 invariant spec: quant_spec(true, map_elems(map), 0, right@, *param, old(values)@, *old(symbols), *extern_func) == quant_spec(true, map_elems(map), it.index@, right@, *param, values@, *symbols, *extern_func)
        //@ loop 5 ghost it
        //@ ghost loop 5 end :: proof { assert(values@ =~= old(values)@); }
        //@ loop 5 invariant frame: values@ == old(values)@ && !values@.contains_key(*param)
        //@ loop 5 invariant elems: it.seq().len() == map_elems(map).len() && forall|k: int| 0 <= k < it.seq().len() ==> pair_term(key_term(*(#[trigger] it.seq()[k]).0), *it.seq()[k].1) == map_elems(map)[k]
        //@ loop 5 invariant spec: quant_spec(false, map_elems(map), 0, right@, *param, old(values)@, *old(symbols), *extern_func) == quant_spec(false, map_elems(map), it.index@, right@, *param, values@, *symbols, *extern_func)
        //@end
    }
    impl Expression {
        //@extract biscuit-auth/src/datalog/expression.rs :: impl Expression :: fn print
        //@ attr #[verifier::exec_allows_no_decreases_clause]
        //@ sub params\s*\.iter\(\)\s*\.map\(\|s\| symbols\.print_term\(&Term::Variable\(\*s\)\)\)\s*\.collect::<Vec<_>>\(\)\s*\.join\(", "\) => verif_join_params(params, symbols)
        //@ ensures empty: self.ops@.len() == 0 ==> r is None
        //@ loop 0 ghost it
        //@ loop 0 invariant seq: it.seq().len() == self.ops@.len() && forall|i: int| 0 <= i < self.ops@.len() ==> *(#[trigger] it.seq()[i]) == self.ops@[i]
        //@ loop 0 invariant empty: self.ops@.len() == 0 ==> stack@.len() == 0
        //@end
        //@extract biscuit-auth/src/datalog/expression.rs :: impl Expression :: fn evaluate
        //@ attr #[verifier::exec_allows_no_decreases_clause]
        //@ sub_unless_gone ShadowedVariable :: values\s*\.keys\(\)\s*\.collect::<HashSet<_>>\(\)\s*\.intersection\(&params\.iter\(\)\.collect\(\)\)\s*\.next\(\)\s*\.is_some\(\) => verif_shadows(values, &params)
        //@ ensures empty: self.ops@.len() == 0 ==> r == Err::<Term, error::Expression>(error::Expression::InvalidStack)
        //@ loop 0 ghost it
        //@ loop 0 invariant seq: it.seq().len() == self.ops@.len() && forall|i: int| 0 <= i < self.ops@.len() ==> *(#[trigger] it.seq()[i]) == self.ops@[i]
        //@ loop 0 invariant empty: self.ops@.len() == 0 ==> stack@.len() == 0
        //@end
    }
}

pub mod builder_expression {
    // token/builder/expression.rs: the builder-level Display of an expression (used by Authorizer::dump_code and by
    // every `to_string()` on dumped rules / checks): it must not assume that the operation sequence is well formed
    use vstd::prelude::*;
    use crate::datalog2::SymbolTable;
    #[verifier::external_body] pub struct Op { _p: u8 }
    pub struct Expression { pub ops: Vec<Op> }
    pub mod fmt {
        use vstd::prelude::*;
        #[verifier::external_body] pub struct Formatter<'a> { _p: &'a u8 }
        #[verifier::external_body] pub struct Error { _p: u8 }
        pub type Result = core::result::Result<(), Error>;
    }
    // ASSUMED: the default table; builder -> Datalog conversion returns SOME operation sequence (nothing is known
    // about its shape: the builder type is a public struct and dumped expressions come from token contents)
    #[verifier::external_body] pub fn default_symbol_table() -> SymbolTable { unimplemented!() }
    impl Expression {
        #[verifier::external_body] pub fn convert(&self, symbols: &mut SymbolTable) -> crate::datalog::Expression { unimplemented!() }
    }
    // `write!(f, ..)`
    #[verifier::external_body] pub fn verif_write(f: &mut fmt::Formatter<'_>, s: String) -> fmt::Result { unimplemented!() }
    #[verifier::external_body] pub fn verif_write_invalid(f: &mut fmt::Formatter<'_>, ops: &Vec<crate::datalog::Op>) -> fmt::Result { unimplemented!() }
    impl Expression {
    //@extract biscuit-auth/src/token/builder/expression.rs :: impl fmt::Display for Expression :: fn fmt
    //@ id token::builder::expression::Expression::Display::fmt
    //@ sub write!\(f, "\{\}", s\) => verif_write(f, s)
    //@ sub_unless_gone invalid expression :: write!\(f, "<invalid expression: \{:\?\}>", expr\.ops\) => verif_write_invalid(f, &expr.ops)
    //@end
    }
}

pub mod espec {
    use vstd::prelude::*;
    use crate::datalog::*;
    use crate::error;
    // operand kinds: 0 variable, 1 integer, 2 string, 3 date, 4 bytes, 5 bool, 6 set, 7 null, 8 array, 9 map
    pub open spec fn kind(t: Term) -> int {
        match t { Term::Variable(_) => 0, Term::Integer(_) => 1, Term::Str(_) => 2, Term::Date(_) => 3, Term::Bytes(_) => 4,
                  Term::Bool(_) => 5, Term::Set(_) => 6, Term::Null => 7, Term::Array(_) => 8, Term::Map(_) => 9 }
    }
    pub open spec fn composite(t: Term) -> bool { kind(t) == 4 || kind(t) == 6 || kind(t) == 8 || kind(t) == 9 }
    pub open spec fn in_i64(x: int) -> bool { i64::MIN <= x <= i64::MAX }
    // integer arithmetic of the Biscuit specification: the mathematical result, or an Overflow error
    pub open spec fn checked(x: int) -> Result<Term, error::Expression> {
        if in_i64(x) { Ok(Term::Integer(x as i64)) } else { Err(error::Expression::Overflow) }
    }
    // ---- operator / operand-kind table of the Biscuit specification (section "Expressions") ----
    pub open spec fn allowed_unary(op: Unary, k: int) -> bool {
        match op {
            Unary::Negate => k == 5,
            Unary::Parens => true,
            Unary::Length => k == 2 || k == 4 || k == 6 || k == 8 || k == 9,
            Unary::TypeOf => true,   // (a variable operand is refused inside the arm, which is abstracted)
            Unary::Ffi(_) => true,
        }
    }
    pub open spec fn allowed_binary(op: Binary, l: int, r: int) -> bool {
        match op {
            Binary::LessThan | Binary::GreaterThan | Binary::LessOrEqual | Binary::GreaterOrEqual => (l == 1 && r == 1) || (l == 3 && r == 3),
            Binary::Equal | Binary::NotEqual => l == r && l != 0,
            Binary::HeterogeneousEqual | Binary::HeterogeneousNotEqual => true,
            Binary::Contains => (l == 2 && r == 2) || (l == 6 && (r == 6 || r == 1 || r == 3 || r == 5 || r == 2 || r == 4)) || l == 8 || l == 9,
            Binary::Prefix | Binary::Suffix => (l == 2 && r == 2) || (l == 8 && r == 8),
            Binary::Regex => l == 2 && r == 2,
            Binary::Add => (l == 1 && r == 1) || (l == 2 && r == 2),
            Binary::Sub | Binary::Mul | Binary::Div => l == 1 && r == 1,
            Binary::And | Binary::Or => l == 5 && r == 5,
            Binary::Intersection | Binary::Union => l == 6 && r == 6,
            Binary::BitwiseAnd | Binary::BitwiseOr | Binary::BitwiseXor => l == 1 && r == 1,
            // lazy boolean operators and all / any take a closure: never valid on two plain operands
            Binary::LazyAnd | Binary::LazyOr | Binary::All | Binary::Any => false,
            Binary::Get => (l == 8 && r == 1) || (l == 9 && (r == 1 || r == 2)),
            Binary::Ffi(_) => true,
        }
    }
}
//@canary add-not-checked :: datalog::expression::Binary::evaluate :: .checked_add(j) ==>> .checked_sub(j)
//@canary div-error-kind :: datalog::expression::Binary::evaluate :: .ok_or(error::Expression::DivideByZero) ==>> .ok_or(error::Expression::Overflow)
//@canary and-untyped :: datalog::expression::Binary::evaluate :: (Binary::And, Term::Bool(i), Term::Bool(j)) => Ok(Term::Bool(i & j)), ==>> (Binary::And, Term::Bool(i), Term::Bool(j)) => Ok(Term::Bool(i & j)), (Binary::And, Term::Integer(i), Term::Bool(j)) => Ok(Term::Bool(j)),
//@canary heterogeneous-catch-all :: datalog::expression::Binary::evaluate :: (Binary::HeterogeneousEqual, _, _) => Ok(Term::Bool(false)), ==>> (Binary::HeterogeneousEqual, _, _) => Ok(Term::Bool(true)),
//@canary final-stack :: datalog::expression::Expression::evaluate :: if stack.len() == 1 { ==>> if stack.len() <= 1 {
//@canary negate-untyped :: datalog::expression::Unary::evaluate :: (Unary::Negate, Term::Bool(b)) => Ok(Term::Bool(!b)), ==>> (Unary::Negate, Term::Bool(b)) => Ok(Term::Bool(!b)), (Unary::Negate, Term::Integer(b)) => Ok(Term::Integer(b)),
//@canary closure-binding-not-removed :: datalog::expression::Binary::evaluate_with_closure :: values.remove(param);\n                    match result? {\n                        Term::Bool(true) => {} ==>> match result? {\n                        Term::Bool(true) => {}
//@canary lazy-or-not-lazy :: datalog::expression::Binary::evaluate_with_closure :: (Binary::LazyOr, Term::Bool(true), []) => Ok(Term::Bool(true)), ==>> (Binary::LazyOr, Term::Bool(true), []) => { let e = Expression { ops: right.clone() }; e.evaluate(values, symbols, extern_func) }
//@canary any-empty-true :: datalog::expression::Binary::evaluate_with_closure :: Ok(Term::Bool(false))\n            }\n\n            // array ==>> Ok(Term::Bool(true))\n            }\n\n            // array
//@canary all-nonbool-accepted :: datalog::expression::Binary::evaluate_with_closure :: Term::Bool(false) => return Ok(Term::Bool(false)),\n                        _ => return Err(error::Expression::InvalidType), ==>> Term::Bool(false) => return Ok(Term::Bool(false)),\n                        _ => {}
//@canary shadowing-accepted :: datalog::expression::Expression::evaluate :: return Err(error::Expression::ShadowedVariable); ==>> ;
//@canary-requires datalog::expression::Binary::evaluate_with_closure
//@canary print-final-stack :: datalog::expression::Expression::print :: if stack.len() == 1 {\n            Some(stack.remove(0)) ==>> if stack.len() <= 1 {\n            Some(stack.remove(0))
//@canary display-unwrap :: token::builder::expression::Expression::Display::fmt :: match expr.print(&syms) { ==>> match Some(expr.print(&syms).unwrap()) {
} // verus!
fn main() {}
