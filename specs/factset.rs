// =======================================================================================
// Unit `factset` — datalog/mod.rs, the fact store itself (C03 / C04): FactSet::insert and FactSet::merge over the
// real representation HashMap<Origin, HashSet<Fact>>. The other units (engine, loadb) use these two methods through
// ASSUMED contracts over the abstract view fs_view; here the same statements are PROVED on the real bodies, in
// membership form (fs_has(f, o, x) is `(o, x) in fs_view(f)`).
// Origin and Fact are opaque hash keys here (their derived Hash / Eq are ASSUMED to obey vstd's key model).
// Four std calls vstd does not specify are replaced by stubs with assumed contracts (directives `sub` below):
// HashMap::get_mut, HashMap::entry(..).or_default(), by-value iteration over a HashMap, HashSet::extend.
// =======================================================================================
#![feature(allocator_api)]
#![allow(unused)]
use vstd::prelude::*;
verus! {
//@include std_prelude.rs

pub mod keyax {
    use vstd::prelude::*;
    pub broadcast axiom fn ax_origin_key()
        ensures #[trigger] vstd::std_specs::hash::obeys_key_model::<crate::datalog::Origin>();
    pub broadcast axiom fn ax_fact_key()
        ensures #[trigger] vstd::std_specs::hash::obeys_key_model::<crate::datalog::Fact>();
}
pub mod datalog {
    use vstd::prelude::*;
    use crate::verif_std::*;
    use std::collections::{BTreeMap, BTreeSet, HashMap, HashSet};
    broadcast use {vstd::std_specs::hash::group_hash_axioms, crate::keyax::ax_origin_key, crate::keyax::ax_fact_key};

    #[verifier::external_body] pub struct Origin { _p: u8 }
    impl std::hash::Hash for Origin { #[verifier::external_body] fn hash<H: std::hash::Hasher>(&self, state: &mut H) { unimplemented!() } }
    impl PartialEq for Origin { #[verifier::external_body] fn eq(&self, o: &Self) -> bool { unimplemented!() } }
    impl Eq for Origin {}
    impl Clone for Origin { #[verifier::external_body] fn clone(&self) -> (r: Self) ensures r == *self { unimplemented!() } }
    #[verifier::external_body] pub struct Fact { _p: u8 }
    impl std::hash::Hash for Fact { #[verifier::external_body] fn hash<H: std::hash::Hasher>(&self, state: &mut H) { unimplemented!() } }
    impl PartialEq for Fact { #[verifier::external_body] fn eq(&self, o: &Self) -> bool { unimplemented!() } }
    impl Eq for Fact {}

    //@extract biscuit-auth/src/datalog/mod.rs :: struct FactSet
    //@end

    // (o, x) is stored: x is in the set kept under exactly the origin o
    pub open spec fn fs_has(f: FactSet, o: Origin, x: Fact) -> bool {
        f.inner@.contains_key(o) && f.inner@[o]@.contains(x)
    }

    // ---- opaque iterator: yields exactly the uninterpreted sequence verif_seq_rem(it) ----
    #[verifier::external_body]
    #[verifier::reject_recursive_types(T)]
    pub struct VerifSeqIter<T> { _p: core::marker::PhantomData<T> }
    pub uninterp spec fn verif_seq_rem<T>(it: VerifSeqIter<T>) -> Seq<T>;
    impl<T> Iterator for VerifSeqIter<T> {
        type Item = T;
        #[verifier::external_body]
        fn next(&mut self) -> Option<T> { unimplemented!() }
    }
    impl<T> vstd::std_specs::iter::IteratorSpecImpl for VerifSeqIter<T> {
        open spec fn obeys_prophetic_iter_laws(&self) -> bool { true }
        open spec fn remaining(&self) -> Seq<T> { verif_seq_rem(*self) }
        open spec fn will_return_none(&self) -> bool { true }
        open spec fn decrease(&self) -> Option<nat> { Some(verif_seq_rem(*self).len()) }
        open spec fn peek(&self, i: int) -> Option<T> { if 0 <= i < verif_seq_rem(*self).len() { Some(verif_seq_rem(*self)[i]) } else { None } }
    }

    // ASSUMED (std): HashMap::get_mut — None iff the key is absent (map unchanged); otherwise a borrow of the stored
    // value, and when the borrow ends the map is the old one with that key updated to the final value
    #[verifier::external_body]
    pub fn verif_get_mut<'a>(m: &'a mut HashMap<Origin, HashSet<Fact>>, k: &Origin) -> (r: Option<&'a mut HashSet<Fact>>)
        ensures match r {
            None => !old(m)@.contains_key(*k) && *final(m) == *old(m),
            Some(v) => old(m)@.contains_key(*k) && *v == old(m)@[*k] && final(m)@ == old(m)@.insert(*k, *final(v)),
        }
    { unimplemented!() }
    // ASSUMED (std): HashMap::entry(k).or_default() — a borrow of the value under k, an empty set when k was absent
    #[verifier::external_body]
    pub fn verif_entry_or_default<'a>(m: &'a mut HashMap<Origin, HashSet<Fact>>, k: Origin) -> (r: &'a mut HashSet<Fact>)
        ensures (*r)@ == (if old(m)@.contains_key(k) { old(m)@[k]@ } else { Set::<Fact>::empty() }),
                final(m)@ == old(m)@.insert(k, *final(r)),
    { unimplemented!() }
    // ASSUMED (std): iterating a HashMap by value yields every (key, value) entry (map_entries: some enumeration of them)
    pub uninterp spec fn map_entries(m: HashMap<Origin, HashSet<Fact>>) -> Seq<(Origin, HashSet<Fact>)>;
    #[verifier::external_body]
    pub fn verif_map_into_iter(m: HashMap<Origin, HashSet<Fact>>) -> (r: VerifSeqIter<(Origin, HashSet<Fact>)>)
        ensures verif_seq_rem(r) == map_entries(m),
                forall|i: int| 0 <= i < map_entries(m).len() ==> m@.contains_key((#[trigger] map_entries(m)[i]).0) && m@[map_entries(m)[i].0] == map_entries(m)[i].1,
                forall|k: Origin| #[trigger] m@.contains_key(k) ==> exists|i: int| 0 <= i < map_entries(m).len() && (#[trigger] map_entries(m)[i]).0 == k,
    { unimplemented!() }
    // ASSUMED (std): HashSet::extend with the elements of another set = union
    #[verifier::external_body]
    pub fn verif_set_extend(s: &mut HashSet<Fact>, other: HashSet<Fact>)
        ensures final(s)@ == old(s)@.union(other@)
    { unimplemented!() }

    impl FactSet {
        //@extract biscuit-auth/src/datalog/mod.rs :: impl FactSet :: fn insert
        //@ id datalog::FactSet::insert
        //@ sub self\.inner\.get_mut\(origin\) => verif_get_mut(&mut self.inner, origin)
        //@ ensures added: fs_has(*final(self), *origin, fact)
        //@ ensures exact: forall|o: Origin, x: Fact| #![trigger fs_has(*final(self), o, x)] fs_has(*final(self), o, x) <==> (fs_has(*old(self), o, x) || (o == *origin && x == fact))
        //@end
        //@extract biscuit-auth/src/datalog/mod.rs :: impl FactSet :: fn merge
        //@ id datalog::FactSet::merge
        //@ sub in other\.inner \{ => in verif_map_into_iter(other.inner) {
        //@ sub self\.inner\.entry\(origin\)\.or_default\(\) => verif_entry_or_default(&mut self.inner, origin)
        //@ sub entry\.extend\(facts\.into_iter\(\)\) => verif_set_extend(entry, facts)
        //@ ensures union: forall|o: Origin, x: Fact| #![trigger fs_has(*final(self), o, x)] fs_has(*final(self), o, x) <==> (fs_has(*old(self), o, x) || fs_has(other, o, x))
        //@ loop 0 ghost it
        //@ loop 0 invariant seq: it.seq() == map_entries(other.inner)
        //@ loop 0 invariant sofar: forall|o: Origin, x: Fact| #![trigger fs_has(*self, o, x)] fs_has(*self, o, x) <==> (fs_has(*old(self), o, x) || (exists|j: int| 0 <= j < it.index@ && (#[trigger] it.seq()[j]).0 == o && it.seq()[j].1@.contains(x)))
        //@ ghost loop 0 start :: let ghost pre = *self; let ghost o0 = origin; let ghost f0 = facts; let ghost k = it.index@; proof { assert(it.seq()[k] == (o0, f0)); }
        //@ ghost loop 0 end :: proof { assert forall|o: Origin, x: Fact| #![trigger fs_has(*self, o, x)] fs_has(*self, o, x) <==> (fs_has(pre, o, x) || (o == o0 && f0@.contains(x))) by { }; assert forall|o: Origin, x: Fact| #![trigger fs_has(*self, o, x)] fs_has(*self, o, x) <==> (fs_has(*old(self), o, x) || (exists|j: int| 0 <= j < k + 1 && (#[trigger] it.seq()[j]).0 == o && it.seq()[j].1@.contains(x))) by { if o == o0 && f0@.contains(x) { assert(it.seq()[k].0 == o && it.seq()[k].1@.contains(x)); } } }
        //@end
    }
}
//@canary insert-wrong-origin :: datalog::FactSet::insert :: self.inner.insert(origin.clone(), set); ==>> self.inner.insert(origin.clone(), HashSet::new());
//@canary merge-skips-known-origin :: datalog::FactSet::merge :: entry.extend(facts.into_iter()); ==>> if entry.len() == 0 { entry.extend(facts.into_iter()); }
} // verus!
fn main() {}
