// =======================================================================================
// Unit `limits` — evaluation budgets (C10) and limit arithmetic (C09):
//   datalog/mod.rs World::run_with_limits (inner rule loop abstracted, rule A1),
//   token/authorizer.rs Authorizer::{run, authorize, authorize_with_limits}
// =======================================================================================
#![feature(allocator_api)]
#![allow(unused)]
use vstd::prelude::*;
verus! {
//@include std_prelude.rs
//@include error_mod.rs
//@include limits_body.rs
} // verus!
fn main() {}
