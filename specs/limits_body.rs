//@include time_stub.rs
pub mod datalog {
    use vstd::prelude::*;
    use crate::verif_std::*;
    use crate::error::Execution;
    use crate::time::Instant;
    use crate::error;
    use std::collections::HashMap;
    use crate::time::Duration;
    use crate::lspec::*;
    broadcast use crate::error::qm_axioms;

    // stand-ins (opaque): the fact and rule stores, the symbol table, extern functions
    #[verifier::external_body] pub struct RuleSet { _p: u8 }
    #[verifier::external_body] pub struct SymbolTable { _p: u8 }
    impl Clone for World { #[verifier::external_body] fn clone(&self) -> (r: Self) ensures r == *self { unimplemented!() } }
    #[verifier::external_body] pub struct ExternFunc { _p: u8 }
    #[verifier::external_body] pub struct FactSet { _p: u8 }
    pub uninterp spec fn facts_len(f: FactSet) -> nat;
    impl Default for FactSet {
        #[verifier::external_body]
        fn default() -> (r: Self) ensures facts_len(r) == 0 { unimplemented!() }
    }
    impl FactSet {
        // ASSUMED contracts of FactSet::len / merge (datalog/mod.rs: HashMap<Origin, HashSet<Fact>> code):
        // len is the number of facts and fits a usize; merge never removes a fact
        #[verifier::external_body]
        pub fn len(&self) -> (r: usize) ensures r == facts_len(*self) { unimplemented!() }
        #[verifier::external_body]
        pub fn merge(&mut self, other: FactSet)
            ensures facts_len(*old(self)) <= facts_len(*final(self)) <= facts_len(*old(self)) + facts_len(other)
        { unimplemented!() }
    }
    // rule A1: the body of `for (scope, rules) in self.rules.inner.iter() { .. }` (join engine: closures over
    // Box<dyn Iterator>) is abstracted: it may add any facts to `new_facts` and may report an expression error
    #[verifier::external_body]
    pub fn verif_apply_all_rules(world: &World, symbols: &SymbolTable, new_facts: &mut FactSet) -> (r: Option<error::Expression>)
    { unimplemented!() }

    //@extract biscuit-auth/src/datalog/mod.rs :: struct RunLimits
    //@end
    impl Clone for RunLimits { #[verifier::external_body] fn clone(&self) -> (r: Self) ensures r == *self { unimplemented!() } }
    //@extract biscuit-auth/src/datalog/mod.rs :: struct World
    //@end

    impl World {
        //@extract biscuit-auth/src/datalog/mod.rs :: impl World :: fn run_with_limits
        //@ abstract_loop 1 :: if let Some(e) = verif_apply_all_rules(self, symbols, &mut new_facts) { return Err(Execution::Expression(e)); }
        //@ sub let res; => let res: Result<(), Execution>;
        //@ requires time_sane: limits.max_time.nanos <= crate::time::MAX_NANOS / 2
        //@ ensures iterations_budget: r is Ok ==> final(self).iterations - old(self).iterations <= limits.max_iterations
        //@ ensures facts_budget_strict: r is Ok ==> facts_len(final(self).facts) <= limits.max_facts
        //@ ensures facts_budget: r is Ok ==> facts_len(final(self).facts) <= limits.max_facts || facts_len(final(self).facts) == facts_len(old(self).facts)
        //@ ensures cumulative: final(self).iterations >= old(self).iterations
        //@ ensures error_accounted: r is Err && r->Err_0 is RunLimit ==> final(self).iterations > old(self).iterations || final(self).iterations == u64::MAX
        //@ ensures errors: r is Err ==> r->Err_0 is Expression || (r->Err_0 is RunLimit && (r->Err_0->RunLimit_0 is TooManyIterations || r->Err_0->RunLimit_0 is TooManyFacts || r->Err_0->RunLimit_0 is Timeout))
        //@ loop 0 invariant frame: self.iterations == old(self).iterations
        //@ loop 0 invariant index_bound: index <= limits.max_iterations + 1
        //@ loop 0 invariant_except_break index: index == 0 || index < limits.max_iterations
        //@ loop 0 invariant_except_break facts: index > 0 ==> facts_len(self.facts) < limits.max_facts
        //@ loop 0 ensures ok_iterations: res is Ok ==> index <= limits.max_iterations
        //@ loop 0 invariant grown: index == 0 ==> facts_len(self.facts) == facts_len(old(self).facts)
        //@ loop 0 ensures ok_facts_initial: res is Ok && index == 0 ==> facts_len(self.facts) <= limits.max_facts
        //@ loop 0 ensures ok_facts_after_growth: res is Ok && index > 0 ==> facts_len(self.facts) <= limits.max_facts
        //@ loop 0 ensures err_rounds: res is Err ==> index >= 1
        //@ loop 0 ensures errs: res is Err ==> (res->Err_0 is RunLimit && (res->Err_0->RunLimit_0 is TooManyIterations || res->Err_0->RunLimit_0 is TooManyFacts || res->Err_0->RunLimit_0 is Timeout))
        //@ loop 0 decreases limits.max_iterations + 1 - index
        //@end
    }
}
pub mod token {
    pub mod authorizer {
        use vstd::prelude::*;
        use crate::verif_std::*;
        use crate::datalog::{self, RunLimits};
        use crate::error;
        use crate::time::Instant;
        use crate::time::Duration;
        use std::collections::HashMap;
        use crate::datalog::facts_len;
        broadcast use crate::error::qm_axioms;
        // stand-ins (opaque) for the fields of Authorizer this unit does not look into
        #[verifier::external_body] pub struct BlockBuilder { _p: u8 }
        #[verifier::external_body] pub struct TrustedOrigins { _p: u8 }
        #[verifier::external_body] pub struct Policy { _p: u8 }
        #[verifier::external_body] pub struct Rule { _p: u8 }
        #[verifier::external_body] pub struct Fact { _p: u8 }
        use std::convert::{TryFrom, TryInto};
        #[verifier::external_body] pub struct Block { _p: u8 }
        //@extract biscuit-auth/src/token/authorizer.rs :: type AuthorizerLimits
        //@end
        //@extract biscuit-auth/src/token/authorizer.rs :: struct Authorizer
        //@end

        impl Authorizer {
            // the part of the state every budget computation relies on
            pub open spec fn sane(self) -> bool {
                self.limits.max_time.nanos <= crate::time::MAX_NANOS / 2
                && (self.execution_time is Some ==> self.execution_time->Some_0.nanos <= crate::time::MAX_NANOS / 2)
            }
            // ASSUMED (checks and policies evaluation, outside this unit): returns; leaves the counters alone
            #[verifier::external_body]
            fn authorize_inner(&mut self, limits: AuthorizerLimits) -> (r: Result<usize, error::Token>)
                ensures final(self).world.iterations == old(self).world.iterations, final(self).limits == old(self).limits,
                        final(self).execution_time == old(self).execution_time,
                        facts_len(final(self).world.facts) == facts_len(old(self).world.facts)
            { unimplemented!() }

            //@extract biscuit-auth/src/token/authorizer.rs :: impl Authorizer :: fn run
            //@ requires sane: old(self).sane()
            //@ ensures cached: old(self).execution_time is Some ==> r == Ok::<Duration, error::Token>(old(self).execution_time->Some_0) && *final(self) == *old(self)
            //@ ensures budget: r is Ok && old(self).execution_time is None ==> final(self).world.iterations - old(self).world.iterations <= old(self).limits.max_iterations && (facts_len(final(self).world.facts) <= old(self).limits.max_facts || facts_len(final(self).world.facts) == facts_len(old(self).world.facts))
            //@ ensures frame: final(self).limits == old(self).limits && final(self).world.iterations >= old(self).world.iterations
            //@ ensures time: r is Ok ==> final(self).execution_time == Some(r->Ok_0) && r->Ok_0.nanos <= crate::time::MAX_NANOS / 2
            //@ ensures limit_error: r is Err ==> r->Err_0 is RunLimit || r->Err_0 is Execution
            //@ ensures error_not_cached: r is Err ==> final(self).execution_time == old(self).execution_time
            //@end
            //@extract biscuit-auth/src/token/authorizer.rs :: impl Authorizer :: fn authorize
            //@ requires sane: old(self).sane()
            //@ ensures ran: r is Ok ==> final(self).execution_time is Some
            //@ ensures budget: r is Ok ==> final(self).world.iterations <= old(self).limits.max_iterations
            //@ ensures cumulative_time: r is Ok && old(self).execution_time is Some ==> old(self).execution_time->Some_0.nanos < old(self).limits.max_time.nanos
            //@end
            //@extract biscuit-auth/src/token/authorizer.rs :: impl Authorizer :: fn authorize_with_limits
            //@ requires sane: old(self).sane()
            //@ requires time_sane: limits.max_time.nanos <= crate::time::MAX_NANOS / 2
            //@ ensures ran: r is Ok ==> final(self).execution_time is Some
            //@ ensures frame: final(self).limits == old(self).limits && (old(self).execution_time is Some ==> final(self).world.iterations == old(self).world.iterations)
            //@ ensures iterations: final(self).world.iterations >= old(self).world.iterations && (r is Ok && old(self).execution_time is None ==> final(self).world.iterations - old(self).world.iterations <= old(self).limits.max_iterations)
            //@end
            // ASSUMED: query_with_limits / query_all_with_limits return (contract-free callees: their prologue is `run`, their
            // bodies are unit authz's query_inner / query_all_inner)
            #[verifier::external_body]
            pub fn query_with_limits<R: TryInto<Rule>, T: TryFrom<Fact, Error = E>, E: Into<error::Token>>(&mut self, rule: R, limits: AuthorizerLimits) -> (r: Result<Vec<T>, error::Token>)
                where error::Token: From<<R as TryInto<Rule>>::Error>
            { unimplemented!() }
            #[verifier::external_body]
            pub fn query_all_with_limits<R: TryInto<Rule>, T: TryFrom<Fact, Error = E>, E: Into<error::Token>>(&mut self, rule: R, limits: AuthorizerLimits) -> (r: Result<Vec<T>, error::Token>)
                where error::Token: From<<R as TryInto<Rule>>::Error>
            { unimplemented!() }
            //@extract biscuit-auth/src/token/authorizer.rs :: impl Authorizer :: fn query
            //@ requires sane: old(self).sane()
            //@end
            //@extract biscuit-auth/src/token/authorizer.rs :: impl Authorizer :: fn query_all
            //@ requires sane: old(self).sane()
            //@end
            //@extract biscuit-auth/src/token/authorizer.rs :: impl Authorizer :: fn iterations
            //@ ensures same: r == self.world.iterations
            //@end
            //@extract biscuit-auth/src/token/authorizer.rs :: impl Authorizer :: fn fact_count
            //@ ensures same: r == facts_len(self.world.facts)
            //@end
        }
    }
}
pub mod lspec {
    use vstd::prelude::*;
}
//@canary iterations-eq :: datalog::World::run_with_limits :: if index >= limits.max_iterations { ==>> if index == limits.max_iterations {
//@canary facts-check-dropped :: datalog::World::run_with_limits :: if self.facts.len() >= limits.max_facts as usize { ==>> if false {
//@canary iterations-not-accumulated :: datalog::World::run_with_limits :: self.iterations = self.iterations.saturating_add(index); ==>> self.iterations = index;
//@canary remaining-underflow :: token::authorizer::Authorizer::authorize :: .checked_sub(self.world.iterations) ==>> .checked_sub(0).map(|m| m - self.world.iterations)
//@canary timeout-not-checked :: token::authorizer::Authorizer::authorize :: if execution_time >= limits.max_time { ==>> if false {
//@canary run-not-cached :: token::authorizer::Authorizer::run :: Some(execution_time) => Ok(execution_time), ==>> Some(execution_time) => { self.world.iterations = 0; Ok(execution_time) }
//@canary query-timeout-not-checked :: token::authorizer::Authorizer::query :: if execution_time >= limits.max_time { ==>> if false {
//@canary query-all-remaining-underflow :: token::authorizer::Authorizer::query_all :: .checked_sub(self.world.iterations) ==>> .checked_sub(0).map(|m| m - self.world.iterations)
//@canary run-error-cached :: token::authorizer::Authorizer::run :: self.world\n                    .run_with_limits(&self.symbols, self.limits.clone())?; ==>> let verif_res = self.world.run_with_limits(&self.symbols, self.limits.clone()); self.execution_time = Some(start.elapsed()); verif_res?;
//@canary-requires datalog::World::run_with_limits
//@canary-requires token::authorizer::Authorizer::authorize
