// =======================================================================================
// Unit `loadb` — token/builder/authorizer.rs (C03, C04, C07): how a token's blocks enter the authorizer.
//   load_and_translate_block : every fact of block i is stored under origin {i}; every rule of block i under
//                              origin i with the trusted set of ITS scopes over the block's scopes; third-party
//                              blocks are read with their own symbol table; the key -> block map is not touched
// Conversions between symbol tables, the fact / rule stores and rule validation are ORACLES / assumed contracts.
// Trusted-origin sets come from unit `origin` (contracts only).
// =======================================================================================
#![feature(allocator_api)]
#![allow(unused)]
use vstd::prelude::*;
verus! {
//@include std_prelude.rs
//@include error_mod.rs
//@include-contracts origin_body.rs

pub mod crypto {
    use vstd::prelude::*;
    #[verifier::external_body] pub struct PublicKey { _p: u8 }
}
pub mod datalog2 {
    use vstd::prelude::*;
    use crate::token::Scope;
    use crate::datalog::origin::{Origin, TrustedOrigins};
    use crate::error;
    // stand-ins: a Datalog rule is opaque except for its scopes
    pub struct Rule { pub scopes: Vec<Scope>, pub verif_rest: u64 }
    impl Clone for Rule { #[verifier::external_body] fn clone(&self) -> (r: Self) ensures r == *self { unimplemented!() } }
    #[verifier::external_body] pub struct Fact { _p: u8 }
    impl Clone for Fact { #[verifier::external_body] fn clone(&self) -> (r: Self) ensures r == *self { unimplemented!() } }
    #[verifier::external_body] pub struct Check { _p: u8 }
    #[verifier::external_body] pub struct SymbolTable { _p: u8 }
    impl Clone for SymbolTable { #[verifier::external_body] fn clone(&self) -> (r: Self) ensures r == *self { unimplemented!() } }
    #[verifier::external_body] pub struct FactSet { _p: u8 }
    #[verifier::external_body] pub struct RuleSet { _p: u8 }
    pub struct World { pub facts: FactSet, pub rules: RuleSet, pub verif_rest: u64 }
    // content of the stores: (origin set, fact) pairs; (owning block, trusted set, rule) triples
    pub uninterp spec fn fs_view(f: FactSet) -> Set<(Set<usize>, Fact)>;
    pub uninterp spec fn rs_view(r: RuleSet) -> Set<(usize, Set<usize>, Rule)>;
    // ORACLES: translation of a rule from one symbol table to another; validation
    pub uninterp spec fn tr_rule(r: Rule, from: SymbolTable) -> Result<Rule, error::Format>;
    impl FactSet {
        #[verifier::external_body]
        pub fn insert(&mut self, origin: &Origin, fact: Fact) ensures fs_view(*final(self)) == fs_view(*old(self)).insert((origin.inner@, fact)) { unimplemented!() }
    }
    impl RuleSet {
        #[verifier::external_body]
        pub fn insert(&mut self, origin: usize, scope: &TrustedOrigins, rule: Rule) ensures rs_view(*final(self)) == rs_view(*old(self)).insert((origin, scope.0.inner@, rule)) { unimplemented!() }
    }
    impl Rule {
        #[verifier::external_body]
        pub fn validate_variables(&self, symbols: &SymbolTable) -> Result<(), String> { unimplemented!() }
        #[verifier::external_body]
        pub fn translate(&self, origin_symbols: &SymbolTable, target_symbols: &mut SymbolTable) -> (r: Result<Rule, error::Format>)
            ensures r == tr_rule(*self, *origin_symbols) { unimplemented!() }
    }
    impl SymbolTable {
        #[verifier::external_body]
        pub fn print_rule(&self, r: &Rule) -> String { unimplemented!() }
    }
}
pub mod builder {
    use vstd::prelude::*;
    use crate::datalog2;
    use crate::error;
    #[verifier::external_body] pub struct Fact { _p: u8 }
    #[verifier::external_body] pub struct Check { _p: u8 }
    // ORACLES: Datalog -> builder (reads the source symbol table) and builder -> Datalog (interning in the target table is
    // not modelled: the Datalog object is a function of the builder object)
    pub uninterp spec fn fact_from(f: datalog2::Fact, s: datalog2::SymbolTable) -> Result<Fact, error::Format>;
    pub uninterp spec fn fact_to(f: Fact) -> datalog2::Fact;
    pub uninterp spec fn check_from(f: datalog2::Check, s: datalog2::SymbolTable) -> Result<Check, error::Format>;
    pub uninterp spec fn check_to(f: Check) -> datalog2::Check;
    pub uninterp spec fn scope_tr(s: crate::token::Scope, from: datalog2::SymbolTable) -> Result<crate::token::Scope, error::Format>;
    impl Fact {
        #[verifier::external_body]
        pub fn convert_from(f: &datalog2::Fact, symbols: &datalog2::SymbolTable) -> (r: Result<Fact, error::Format>) ensures r == fact_from(*f, *symbols) { unimplemented!() }
        #[verifier::external_body]
        pub fn convert(&self, symbols: &mut datalog2::SymbolTable) -> (r: datalog2::Fact) ensures r == fact_to(*self) { unimplemented!() }
    }
    impl Check {
        #[verifier::external_body]
        pub fn convert_from(f: &datalog2::Check, symbols: &datalog2::SymbolTable) -> (r: Result<Check, error::Format>) ensures r == check_from(*f, *symbols) { unimplemented!() }
        #[verifier::external_body]
        pub fn convert(&self, symbols: &mut datalog2::SymbolTable) -> (r: datalog2::Check) ensures r == check_to(*self) { unimplemented!() }
    }
    // `crate::token::builder::Scope::convert_from(scope, &block_symbols).map(|s| s.convert(authorizer_symbols))`
    #[verifier::external_body]
    pub fn verif_translate_scope(scope: &crate::token::Scope, from: &datalog2::SymbolTable, to: &mut datalog2::SymbolTable) -> (r: Result<crate::token::Scope, error::Format>)
        ensures r == scope_tr(*scope, *from) { unimplemented!() }
}
pub mod token2 {
    use vstd::prelude::*;
    use crate::datalog2::{SymbolTable, Fact, Rule, Check};
    use crate::crypto::PublicKey;
    use crate::token::Scope;
    #[verifier::external_body] pub struct PublicKeys { _p: u8 }
    //@extract biscuit-auth/src/token/block.rs :: struct Block
    //@end
}
pub mod authorizer_builder {
    use vstd::prelude::*;
    use crate::verif_std::*;
    use crate::token2::Block;
    use crate::datalog2::{SymbolTable, World, Fact, Rule, fs_view, rs_view, tr_rule};
    use crate::builder::{Check, Fact as BFact, fact_from, fact_to, check_from, check_to, scope_tr};
    use crate::datalog::origin::{Origin, TrustedOrigins};
    use crate::error;
    use crate::token;
    use std::collections::HashMap;
    use crate::ospec::*;
    use crate::lspec::*;
    broadcast use {crate::error::qm_axioms, vstd::std_specs::hash::group_hash_axioms};
    mod builder_alias {}

    //@extract biscuit-auth/src/token/builder/authorizer.rs :: fn load_and_translate_block
    //@ attr #[verifier::loop_isolation(false)]
    //@ sub crate::token::builder::Scope::convert_from\(scope, &block_symbols\)\s*\.map\(\|s\| s\.convert\(authorizer_symbols\)\)\? => crate::builder::verif_translate_scope(scope, &block_symbols, authorizer_symbols)?
    //@ sub Fact::convert_from\(fact, &block_symbols\)\?\.convert\(authorizer_symbols\) => BFact::convert_from(fact, &block_symbols)?.convert(authorizer_symbols)
    //@ ghost body_start :: let ghost m = old(public_key_to_block_id)@; let ghost src = source_symbols(*old(block), i, *token_symbols);
    //@ loop 0 ghost it0
    //@ loop 0 invariant elems: it0.seq().len() == old(block).scopes@.len() && forall|k: int| 0 <= k < it0.seq().len() ==> *(#[trigger] it0.seq()[k]) == old(block).scopes@[k]
    //@ loop 0 invariant translated: forall|k: int| 0 <= k < it0.index@ ==> scope_tr(*(#[trigger] it0.seq()[k]), src) == Ok::<token::Scope, error::Format>(*final(it0.seq()[k]))
    //@ loop 0 invariant frame: *world == *old(world) && *public_key_to_block_id == *old(public_key_to_block_id) && block_symbols == src
    //@ ghost after_loop 0 :: let ghost bs = block.scopes@;
    //@ ghost before "for fact in" :: proof { lemma_tset(block_trusted_origins.0.inner@, bs, default_trust(), i, m); }
    //@ loop 1 ghost it1
    //@ loop 1 invariant elems: it1.seq().len() == old(block).facts@.len() && forall|k: int| 0 <= k < it1.seq().len() ==> *(#[trigger] it1.seq()[k]) == old(block).facts@[k]
    //@ loop 1 invariant translated: forall|k: int| 0 <= k < it1.index@ ==> fact_from(*(#[trigger] it1.seq()[k]), src) is Ok && *final(it1.seq()[k]) == fact_to(fact_from(*it1.seq()[k], src)->Ok_0)
    //@ loop 1 invariant stored: forall|k: int| 0 <= k < it1.index@ ==> fs_view(world.facts).contains((set![i], *final(#[trigger] it1.seq()[k])))
    //@ loop 1 invariant kept: forall|p: (Set<usize>, Fact)| fs_view(old(world).facts).contains(p) ==> fs_view(world.facts).contains(p)
    //@ loop 1 invariant origin: forall|p: (Set<usize>, Fact)| fs_view(world.facts).contains(p) && !fs_view(old(world).facts).contains(p) ==> p.0 == set![i]
    //@ loop 1 invariant frame: world.rules == old(world).rules && *public_key_to_block_id == *old(public_key_to_block_id) && block_origin.inner@ =~= set![i]
    //@ ghost after_loop 1 :: let ghost facts1 = world.facts; proof { assert forall|k: int| 0 <= k < block.facts@.len() implies (#[trigger] fact_from(old(block).facts@[k], src)) is Ok by { let x = block.facts@[k]; } }
    //@ loop 2 ghost it2
    //@ loop 2 invariant elems: it2.seq().len() == old(block).rules@.len() && forall|k: int| 0 <= k < it2.seq().len() ==> *(#[trigger] it2.seq()[k]) == old(block).rules@[k]
    //@ loop 2 invariant translated: forall|k: int| 0 <= k < it2.index@ ==> tr_rule(*(#[trigger] it2.seq()[k]), src) == Ok::<Rule, error::Format>(*final(it2.seq()[k]))
    //@ loop 2 invariant stored: forall|k: int| 0 <= k < it2.index@ ==> rule_stored(world.rules, i, *final(#[trigger] it2.seq()[k]), bs, m)
    //@ loop 2 invariant kept: forall|e: (usize, Set<usize>, Rule)| rs_view(old(world).rules).contains(e) ==> rs_view(world.rules).contains(e)
    //@ loop 2 invariant scope: forall|e: (usize, Set<usize>, Rule)| rs_view(world.rules).contains(e) && !rs_view(old(world).rules).contains(e) ==> e.0 == i && has_tset(e.1, e.2.scopes@, block_trust(bs, i, m), i, m)
    //@ loop 2 invariant frame: world.facts == facts1 && *public_key_to_block_id == *old(public_key_to_block_id)
    //@ ghost before "world.rules.insert(" :: proof { lemma_tset(rule_trusted_origins.0.inner@, rule.scopes@, block_trust(bs, i, m), i, m); }
    //@ ghost after_loop 2 :: let ghost w2 = *world;
    //@ loop 3 ghost it3
    //@ loop 3 invariant frame: *world == w2 && *public_key_to_block_id == *old(public_key_to_block_id)
    //@ ensures key_map_untouched: *final(public_key_to_block_id) == *old(public_key_to_block_id)
    //@ ensures facts_origin: r is Ok ==> forall|p: (Set<usize>, Fact)| fs_view(final(world).facts).contains(p) && !fs_view(old(world).facts).contains(p) ==> p.0 == set![i]
    //@ ensures facts_complete: r is Ok ==> forall|k: int| 0 <= k < final(block).facts@.len() ==> fs_view(final(world).facts).contains((set![i], #[trigger] final(block).facts@[k]))
    //@ ensures facts_kept: forall|p: (Set<usize>, Fact)| fs_view(old(world).facts).contains(p) ==> fs_view(final(world).facts).contains(p)
    //@ ensures facts_symbols: r is Ok ==> final(block).facts@.len() == old(block).facts@.len() && forall|k: int| #![trigger final(block).facts@[k]] 0 <= k < old(block).facts@.len() ==> fact_from(old(block).facts@[k], source_symbols(*old(block), i, *token_symbols)) is Ok && final(block).facts@[k] == fact_to(fact_from(old(block).facts@[k], source_symbols(*old(block), i, *token_symbols))->Ok_0)
    //@ ensures scopes_symbols: r is Ok ==> final(block).scopes@.len() == old(block).scopes@.len() && forall|k: int| 0 <= k < old(block).scopes@.len() ==> #[trigger] scope_tr(old(block).scopes@[k], source_symbols(*old(block), i, *token_symbols)) == Ok::<token::Scope, error::Format>(final(block).scopes@[k])
    //@ ensures rules_scope: r is Ok ==> forall|e: (usize, Set<usize>, Rule)| rs_view(final(world).rules).contains(e) && !rs_view(old(world).rules).contains(e) ==> e.0 == i && has_tset(e.1, e.2.scopes@, block_trust(final(block).scopes@, i, old(public_key_to_block_id)@), i, old(public_key_to_block_id)@)
    //@ ensures rules_complete: r is Ok ==> final(block).rules@.len() == old(block).rules@.len() && forall|k: int| 0 <= k < final(block).rules@.len() ==> rule_stored(final(world).rules, i, #[trigger] final(block).rules@[k], final(block).scopes@, old(public_key_to_block_id)@)
    //@ ensures rules_symbols: r is Ok ==> forall|k: int| 0 <= k < old(block).rules@.len() ==> #[trigger] tr_rule(old(block).rules@[k], source_symbols(*old(block), i, *token_symbols)) == Ok::<Rule, error::Format>(final(block).rules@[k])
    //@ ensures rules_kept: forall|e: (usize, Set<usize>, Rule)| rs_view(old(world).rules).contains(e) ==> rs_view(final(world).rules).contains(e)
    //@end
}
pub mod lspec {
    use vstd::prelude::*;
    use crate::token2::Block;
    use crate::datalog2::{SymbolTable, Rule, RuleSet, rs_view};
    use crate::ospec::*;
    use crate::token::Scope;
    // C07: a third-party block (external key present, not the authority) is read with ITS OWN symbol table,
    // every other block with the token's
    pub open spec fn source_symbols(b: Block, i: usize, token_symbols: SymbolTable) -> SymbolTable {
        if i == 0 || b.external_key is None { token_symbols } else { b.symbols }
    }
    pub open spec fn has_tset(s: Set<usize>, scopes: Seq<Scope>, dflt: Set<usize>, cur: usize, m: Map<usize, Vec<usize>>) -> bool {
        forall|x: usize| s.contains(x) <==> trusted_spec(scopes, dflt, cur, m, x)
    }
    pub open spec fn tset(scopes: Seq<Scope>, dflt: Set<usize>, cur: usize, m: Map<usize, Vec<usize>>) -> Set<usize> {
        choose|s: Set<usize>| has_tset(s, scopes, dflt, cur, m)
    }
    pub proof fn lemma_tset(s: Set<usize>, scopes: Seq<Scope>, dflt: Set<usize>, cur: usize, m: Map<usize, Vec<usize>>)
        requires has_tset(s, scopes, dflt, cur, m)
        ensures s == tset(scopes, dflt, cur, m)
    {
        let t = tset(scopes, dflt, cur, m);
        assert(has_tset(t, scopes, dflt, cur, m));
        assert(s =~= t);
    }
    // what block i trusts by default: its own scopes over {authority, authorizer}
    pub open spec fn block_trust(block_scopes: Seq<Scope>, i: usize, m: Map<usize, Vec<usize>>) -> Set<usize> {
        tset(block_scopes, default_trust(), i, m)
    }
    pub open spec fn rule_stored(rs: RuleSet, i: usize, rule: Rule, block_scopes: Seq<Scope>, m: Map<usize, Vec<usize>>) -> bool {
        rs_view(rs).contains((i, tset(rule.scopes@, block_trust(block_scopes, i, m), i, m), rule))
    }
}
//@canary third-party-symbols-flipped :: token::builder::authorizer::load_and_translate_block :: if i == 0 || block.external_key.is_none() { ==>> if block.external_key.is_some() {
//@canary third-party-symbols-authority :: token::builder::authorizer::load_and_translate_block :: if i == 0 || block.external_key.is_none() { ==>> if block.external_key.is_none() {
//@canary fact-origin-authority :: token::builder::authorizer::load_and_translate_block :: block_origin.insert(i); ==>> block_origin.insert(0);
//@canary rule-default-not-block :: token::builder::authorizer::load_and_translate_block :: &block_trusted_origins, ==>> &TrustedOrigins::default(),
//@canary rule-origin-authority :: token::builder::authorizer::load_and_translate_block :: world.rules.insert(i, ==>> world.rules.insert(0,
//@canary block-trust-wrong-index :: token::builder::authorizer::load_and_translate_block :: &TrustedOrigins::default(),\n        i, ==>> &TrustedOrigins::default(),\n        0,
//@canary fact-not-stored :: token::builder::authorizer::load_and_translate_block :: world.facts.insert(&block_origin, fact.clone()); ==>> {}
//@canary rule-scopes-of-block :: token::builder::authorizer::load_and_translate_block :: &rule.scopes, ==>> &block.scopes,
//@canary-requires token::builder::authorizer::load_and_translate_block
} // verus!
fn main() {}
