// =======================================================================================
// Unit `loadb` — token/builder/authorizer.rs (C03, C04, C07): how a token's blocks enter the authorizer.
//   load_and_translate_block : every fact of block i is stored under origin {i}; every rule of block i under
//                              origin i with the trusted set of ITS scopes over the block's scopes; third-party
//                              blocks are read with their own symbol table; the key -> block map is not touched
// Conversions between symbol tables, the fact / rule stores and rule validation are ORACLES / assumed contracts.
// Trusted-origin sets come from unit `origin` (contracts only).
// =======================================================================================
#![feature(allocator_api)]
#![allow(unused)]
use vstd::prelude::*;
verus! {
//@include std_prelude.rs
//@include error_mod.rs
//@include-contracts origin_body.rs

pub mod crypto {
    use vstd::prelude::*;
    #[verifier::external_body] #[derive(Clone, Copy)] pub struct PublicKey { _p: u8 }
    // stand-ins for crypto::Block / ExternalSignature: the field build_inner reads
    pub struct ExternalSignature { pub public_key: PublicKey, pub verif_rest: u64 }
    pub struct Block { pub external_signature: Option<ExternalSignature>, pub verif_rest: u64 }
}
pub mod datalog2 {
    use vstd::prelude::*;
    use crate::token::Scope;
    use crate::datalog::origin::{Origin, TrustedOrigins};
    use crate::error;
    // stand-ins: a Datalog rule is opaque except for its scopes
    pub struct Rule { pub scopes: Vec<Scope>, pub verif_rest: u64 }
    impl Clone for Rule { #[verifier::external_body] fn clone(&self) -> (r: Self) ensures r == *self { unimplemented!() } }
    #[verifier::external_body] pub struct Fact { _p: u8 }
    impl Clone for Fact { #[verifier::external_body] fn clone(&self) -> (r: Self) ensures r == *self { unimplemented!() } }
    #[verifier::external_body] pub struct Check { _p: u8 }
    pub struct PublicKeys { pub keys: Vec<crate::crypto::PublicKey> }
    impl Clone for PublicKeys { #[verifier::external_body] fn clone(&self) -> (r: Self) ensures r == *self { unimplemented!() } }
    pub struct SymbolTable { pub public_keys: PublicKeys, pub verif_rest: u64 }
    impl PublicKeys {
        //@extract biscuit-auth/src/token/public_keys.rs :: impl PublicKeys :: fn current_offset
        //@ ensures len: r == self.keys@.len()
        //@end
        // ASSUMED (iter().position(closure)): the index of the first equal key, appended when absent
        #[verifier::external_body]
        pub fn insert(&mut self, k: &crate::crypto::PublicKey) -> (r: u64)
            ensures final(self).keys@ == (if old(self).keys@.contains(*k) { old(self).keys@ } else { old(self).keys@.push(*k) }),
                    r < final(self).keys@.len(), final(self).keys@[r as int] == *k, final(self).keys@.len() <= usize::MAX
        { unimplemented!() }
    }
    impl Clone for SymbolTable { #[verifier::external_body] fn clone(&self) -> (r: Self) ensures r == *self { unimplemented!() } }
    #[verifier::external_body] pub struct FactSet { _p: u8 }
    #[verifier::external_body] pub struct RuleSet { _p: u8 }
    #[verifier::external_body] pub struct ExternFunc { _p: u8 }
    pub struct World { pub facts: FactSet, pub rules: RuleSet, pub iterations: u64, pub extern_funcs: std::collections::HashMap<String, ExternFunc> }
    impl World {
        #[verifier::external_body]
        pub fn new() -> (r: World) ensures fs_view(r.facts) == Set::<(Set<usize>, Fact)>::empty(), rs_view(r.rules) == Set::<(usize, Set<usize>, Rule)>::empty(), r.iterations == 0 { unimplemented!() }
    }
    impl SymbolTable {
        #[verifier::external_body]
        pub fn new() -> (r: SymbolTable) ensures r.public_keys.keys@ == Seq::<crate::crypto::PublicKey>::empty() { unimplemented!() }
    }
    // content of the stores: (origin set, fact) pairs; (owning block, trusted set, rule) triples
    pub uninterp spec fn fs_view(f: FactSet) -> Set<(Set<usize>, Fact)>;
    pub uninterp spec fn rs_view(r: RuleSet) -> Set<(usize, Set<usize>, Rule)>;
    // ORACLES: translation of a rule from one symbol table to another; validation
    pub uninterp spec fn tr_rule(r: Rule, from: SymbolTable) -> Result<Rule, error::Format>;
    impl FactSet {
        #[verifier::external_body]
        pub fn insert(&mut self, origin: &Origin, fact: Fact) ensures fs_view(*final(self)) == fs_view(*old(self)).insert((origin.inner@, fact)) { unimplemented!() }
    }
    impl RuleSet {
        #[verifier::external_body]
        pub fn insert(&mut self, origin: usize, scope: &TrustedOrigins, rule: Rule) ensures rs_view(*final(self)) == rs_view(*old(self)).insert((origin, scope.0.inner@, rule)) { unimplemented!() }
    }
    impl Rule {
        #[verifier::external_body]
        pub fn validate_variables(&self, symbols: &SymbolTable) -> Result<(), String> { unimplemented!() }
        #[verifier::external_body]
        pub fn translate(&self, origin_symbols: &SymbolTable, target_symbols: &mut SymbolTable) -> (r: Result<Rule, error::Format>)
            ensures r == tr_rule(*self, *origin_symbols) { unimplemented!() }
    }
    impl SymbolTable {
        #[verifier::external_body]
        pub fn print_rule(&self, r: &Rule) -> String { unimplemented!() }
    }
}
pub mod builder {
    use vstd::prelude::*;
    use crate::datalog2;
    use crate::error;
    #[verifier::external_body] pub struct Fact { _p: u8 }
    #[verifier::external_body] pub struct Check { _p: u8 }
    #[verifier::external_body] pub struct Rule { _p: u8 }
    #[verifier::external_body] pub struct Scope { _p: u8 }
    #[verifier::external_body] pub struct Policy { _p: u8 }
    //@extract biscuit-auth/src/token/builder/block.rs :: struct BlockBuilder
    //@end
    pub uninterp spec fn conv_rule(r: Rule) -> datalog2::Rule;
    pub uninterp spec fn conv_scope(s: Scope) -> crate::token::Scope;
    impl Rule {
        #[verifier::external_body]
        pub fn convert(&self, symbols: &mut datalog2::SymbolTable) -> (r: datalog2::Rule) ensures r == conv_rule(*self) { unimplemented!() }
    }
    // `scopes.clone().iter().map(|s| s.convert(&mut symbols)).collect()`
    #[verifier::external_body]
    pub fn verif_convert_scopes(scopes: &Vec<Scope>, symbols: &mut datalog2::SymbolTable) -> (r: Vec<crate::token::Scope>)
        ensures r@.len() == scopes@.len(), forall|i: int| 0 <= i < scopes@.len() ==> r@[i] == conv_scope(#[trigger] scopes@[i])
    { unimplemented!() }
    // ORACLES: Datalog -> builder (reads the source symbol table) and builder -> Datalog (interning in the target table is
    // not modelled: the Datalog object is a function of the builder object)
    pub uninterp spec fn fact_from(f: datalog2::Fact, s: datalog2::SymbolTable) -> Result<Fact, error::Format>;
    pub uninterp spec fn fact_to(f: Fact) -> datalog2::Fact;
    pub uninterp spec fn check_from(f: datalog2::Check, s: datalog2::SymbolTable) -> Result<Check, error::Format>;
    pub uninterp spec fn check_to(f: Check) -> datalog2::Check;
    pub uninterp spec fn scope_tr(s: crate::token::Scope, from: datalog2::SymbolTable) -> Result<crate::token::Scope, error::Format>;
    impl Fact {
        #[verifier::external_body]
        pub fn convert_from(f: &datalog2::Fact, symbols: &datalog2::SymbolTable) -> (r: Result<Fact, error::Format>) ensures r == fact_from(*f, *symbols) { unimplemented!() }
        #[verifier::external_body]
        pub fn convert(&self, symbols: &mut datalog2::SymbolTable) -> (r: datalog2::Fact) ensures r == fact_to(*self) { unimplemented!() }
    }
    impl Check {
        #[verifier::external_body]
        pub fn convert_from(f: &datalog2::Check, symbols: &datalog2::SymbolTable) -> (r: Result<Check, error::Format>) ensures r == check_from(*f, *symbols) { unimplemented!() }
        #[verifier::external_body]
        pub fn convert(&self, symbols: &mut datalog2::SymbolTable) -> (r: datalog2::Check) ensures r == check_to(*self) { unimplemented!() }
    }
    // `crate::token::builder::Scope::convert_from(scope, &block_symbols).map(|s| s.convert(authorizer_symbols))`
    #[verifier::external_body]
    pub fn verif_translate_scope(scope: &crate::token::Scope, from: &datalog2::SymbolTable, to: &mut datalog2::SymbolTable) -> (r: Result<crate::token::Scope, error::Format>)
        ensures r == scope_tr(*scope, *from) { unimplemented!() }
}
pub mod token2 {
    use vstd::prelude::*;
    use crate::datalog2::{SymbolTable, Fact, Rule, Check};
    use crate::crypto::PublicKey;
    use crate::token::Scope;
    pub use crate::datalog2::PublicKeys;
    //@extract biscuit-auth/src/token/block.rs :: struct Block
    //@end
}
pub mod authorizer_builder {
    use vstd::prelude::*;
    use crate::verif_std::*;
    use crate::token2::Block;
    use crate::datalog2::{SymbolTable, World, Fact, Rule, fs_view, rs_view, tr_rule};
    use crate::builder::{Check, Fact as BFact, fact_from, fact_to, check_from, check_to, scope_tr};
    use crate::datalog::origin::{Origin, TrustedOrigins};
    use crate::error;
    use crate::token;
    use std::collections::HashMap;
    use crate::ospec::*;
    use crate::lspec::*;
    broadcast use {crate::error::qm_axioms, vstd::std_specs::hash::group_hash_axioms};
    mod builder_alias {}

    //@extract biscuit-auth/src/token/builder/authorizer.rs :: fn load_and_translate_block
    //@ attr #[verifier::loop_isolation(false)]
    //@ sub crate::token::builder::Scope::convert_from\(scope, (&?\w+)\)\s*\.map\(\|s\| s\.convert\(authorizer_symbols\)\)\? => crate::builder::verif_translate_scope(scope, \1, authorizer_symbols)?
    //@ sub Fact::convert_from\(fact, &block_symbols\)\?\.convert\(authorizer_symbols\) => BFact::convert_from(fact, &block_symbols)?.convert(authorizer_symbols)
    //@ ghost body_start :: let ghost m = old(public_key_to_block_id)@; let ghost src = source_symbols(*old(block), i, *token_symbols);
    //@ loop 0 ghost it0
    //@ loop 0 invariant elems: it0.seq().len() == old(block).scopes@.len() && forall|k: int| 0 <= k < it0.seq().len() ==> *(#[trigger] it0.seq()[k]) == old(block).scopes@[k]
    //@ loop 0 invariant translated: forall|k: int| 0 <= k < it0.index@ ==> scope_tr(*(#[trigger] it0.seq()[k]), src) == Ok::<token::Scope, error::Format>(*final(it0.seq()[k]))
    //@ loop 0 invariant frame: *world == *old(world) && *public_key_to_block_id == *old(public_key_to_block_id)
    //@ ghost after_loop 0 :: let ghost bs = block.scopes@;
    //@ ghost before "for fact in" :: proof { lemma_tset(block_trusted_origins.0.inner@, bs, default_trust(), i, m); }
    //@ loop 1 ghost it1
    //@ loop 1 invariant elems: it1.seq().len() == old(block).facts@.len() && forall|k: int| 0 <= k < it1.seq().len() ==> *(#[trigger] it1.seq()[k]) == old(block).facts@[k]
    //@ loop 1 invariant translated: forall|k: int| 0 <= k < it1.index@ ==> fact_from(*(#[trigger] it1.seq()[k]), src) is Ok && *final(it1.seq()[k]) == fact_to(fact_from(*it1.seq()[k], src)->Ok_0)
    //@ loop 1 invariant stored: forall|k: int| 0 <= k < it1.index@ ==> fs_view(world.facts).contains((set![i], *final(#[trigger] it1.seq()[k])))
    //@ loop 1 invariant kept: forall|p: (Set<usize>, Fact)| fs_view(old(world).facts).contains(p) ==> fs_view(world.facts).contains(p)
    //@ loop 1 invariant origin: forall|p: (Set<usize>, Fact)| fs_view(world.facts).contains(p) && !fs_view(old(world).facts).contains(p) ==> p.0 == set![i]
    //@ loop 1 invariant frame: world.rules == old(world).rules && *public_key_to_block_id == *old(public_key_to_block_id) && block_origin.inner@ =~= set![i] && world.iterations == old(world).iterations && world.extern_funcs == old(world).extern_funcs
    //@ ghost after_loop 1 :: let ghost facts1 = world.facts; proof { assert forall|k: int| 0 <= k < block.facts@.len() implies (#[trigger] fact_from(old(block).facts@[k], src)) is Ok by { let x = block.facts@[k]; } }
    //@ loop 2 ghost it2
    //@ loop 2 invariant elems: it2.seq().len() == old(block).rules@.len() && forall|k: int| 0 <= k < it2.seq().len() ==> *(#[trigger] it2.seq()[k]) == old(block).rules@[k]
    //@ loop 2 invariant translated: forall|k: int| 0 <= k < it2.index@ ==> tr_rule(*(#[trigger] it2.seq()[k]), src) == Ok::<Rule, error::Format>(*final(it2.seq()[k]))
    //@ loop 2 invariant stored: forall|k: int| 0 <= k < it2.index@ ==> rule_stored(world.rules, i, *final(#[trigger] it2.seq()[k]), bs, m)
    //@ loop 2 invariant kept: forall|e: (usize, Set<usize>, Rule)| rs_view(old(world).rules).contains(e) ==> rs_view(world.rules).contains(e)
    //@ loop 2 invariant scope: forall|e: (usize, Set<usize>, Rule)| rs_view(world.rules).contains(e) && !rs_view(old(world).rules).contains(e) ==> e.0 == i && has_tset(e.1, e.2.scopes@, block_trust(bs, i, m), i, m)
    //@ loop 2 invariant frame: world.facts == facts1 && *public_key_to_block_id == *old(public_key_to_block_id) && world.iterations == old(world).iterations && world.extern_funcs == old(world).extern_funcs
    //@ ghost before "world.rules.insert(" :: proof { lemma_tset(rule_trusted_origins.0.inner@, rule.scopes@, block_trust(bs, i, m), i, m); }
    //@ ghost after_loop 2 :: let ghost w2 = *world;
    //@ loop 3 ghost it3
    //@ loop 3 invariant frame: *world == w2 && *public_key_to_block_id == *old(public_key_to_block_id)
    //@ ensures key_map_untouched: *final(public_key_to_block_id) == *old(public_key_to_block_id)
    //@ ensures external_key_kept: final(block).external_key == old(block).external_key
    //@ ensures world_counters: final(world).iterations == old(world).iterations && final(world).extern_funcs == old(world).extern_funcs
    //@ ensures facts_origin: r is Ok ==> forall|p: (Set<usize>, Fact)| fs_view(final(world).facts).contains(p) && !fs_view(old(world).facts).contains(p) ==> p.0 == set![i]
    //@ ensures facts_complete: r is Ok ==> forall|k: int| 0 <= k < final(block).facts@.len() ==> fs_view(final(world).facts).contains((set![i], #[trigger] final(block).facts@[k]))
    //@ ensures facts_kept: forall|p: (Set<usize>, Fact)| fs_view(old(world).facts).contains(p) ==> fs_view(final(world).facts).contains(p)
    //@ ensures facts_symbols: r is Ok ==> final(block).facts@.len() == old(block).facts@.len() && forall|k: int| #![trigger final(block).facts@[k]] 0 <= k < old(block).facts@.len() ==> fact_from(old(block).facts@[k], source_symbols(*old(block), i, *token_symbols)) is Ok && final(block).facts@[k] == fact_to(fact_from(old(block).facts@[k], source_symbols(*old(block), i, *token_symbols))->Ok_0)
    //@ ensures scopes_symbols: r is Ok ==> final(block).scopes@.len() == old(block).scopes@.len() && forall|k: int| 0 <= k < old(block).scopes@.len() ==> #[trigger] scope_tr(old(block).scopes@[k], source_symbols(*old(block), i, *token_symbols)) == Ok::<token::Scope, error::Format>(final(block).scopes@[k])
    //@ ensures rules_scope: r is Ok ==> forall|e: (usize, Set<usize>, Rule)| rs_view(final(world).rules).contains(e) && !rs_view(old(world).rules).contains(e) ==> e.0 == i && has_tset(e.1, e.2.scopes@, block_trust(final(block).scopes@, i, old(public_key_to_block_id)@), i, old(public_key_to_block_id)@)
    //@ ensures rules_complete: r is Ok ==> final(block).rules@.len() == old(block).rules@.len() && forall|k: int| 0 <= k < final(block).rules@.len() ==> rule_stored(final(world).rules, i, #[trigger] final(block).rules@[k], final(block).scopes@, old(public_key_to_block_id)@)
    //@ ensures rules_symbols: r is Ok ==> forall|k: int| 0 <= k < old(block).rules@.len() ==> #[trigger] tr_rule(old(block).rules@[k], source_symbols(*old(block), i, *token_symbols)) == Ok::<Rule, error::Format>(final(block).rules@[k])
    //@ ensures rules_kept: forall|e: (usize, Set<usize>, Rule)| rs_view(old(world).rules).contains(e) ==> rs_view(final(world).rules).contains(e)
    //@end
}
pub mod token3 {
    use vstd::prelude::*;
    use crate::datalog2::SymbolTable;
    // stand-ins for format::SerializedBiscuit and token::Biscuit: the fields build_inner reads
    pub struct SerializedBiscuit { pub blocks: Vec<crate::crypto::Block>, pub verif_rest: u64 }
    pub struct Biscuit { pub container: SerializedBiscuit, pub symbols: SymbolTable, pub verif_rest: u64 }
    impl Biscuit {
        // ASSUMED: token representation invariant rep() (the decoded block list is as long as the container's,
        // proved for every constructor in unit token): block_count = 1 + number of non-authority blocks
        #[verifier::external_body]
        pub fn block_count(&self) -> (r: usize) ensures r == 1 + self.container.blocks@.len() { unimplemented!() }
    }
}
pub mod authorizer2 {
    use vstd::prelude::*;
    use crate::verif_std::*;
    use crate::builder::{BlockBuilder, Policy, Fact as BFact2, Rule as BRule, Scope as BScope, conv_rule, conv_scope, fact_to};
    use crate::token2::Block;
    use crate::token3::Biscuit;
    use crate::datalog2 as datalog;
    use crate::datalog2::{SymbolTable, World, ExternFunc, Fact, Rule, fs_view, rs_view};
    use crate::datalog::origin::{Origin, TrustedOrigins};
    use crate::error;
    use crate::token;
    use std::collections::HashMap;
    use crate::ospec::*;
    use crate::lspec::*;
    broadcast use {crate::error::qm_axioms, vstd::std_specs::hash::group_hash_axioms};
    // stand-in for std::time::Duration (nanoseconds) and the real run limits
    pub struct Duration { pub nanos: u64 }
    impl Duration {
        #[verifier::external_body] pub fn from_nanos(n: u64) -> (r: Duration) ensures r.nanos == n { unimplemented!() }
    }
    impl Clone for Duration { #[verifier::external_body] fn clone(&self) -> (r: Self) ensures r == *self { unimplemented!() } }
    impl Copy for Duration {}
    pub struct RunLimits { pub max_facts: u64, pub max_iterations: u64, pub max_time: Duration }
    pub type AuthorizerLimits = RunLimits;

    //@extract biscuit-auth/src/token/authorizer.rs :: struct Authorizer
    //@end
    //@extract biscuit-auth/src/token/builder/authorizer.rs :: struct AuthorizerBuilder
    //@end

    // `public_key_to_block_id.entry(k).or_default().push(v)`
    #[verifier::external_body]
    pub fn verif_map_push(m: &mut HashMap<usize, Vec<usize>>, k: usize, v: usize)
        ensures final(m)@.dom() == old(m)@.dom().insert(k),
                final(m)@[k]@ == (if old(m)@.contains_key(k) { old(m)@[k]@ } else { Seq::<usize>::empty() }).push(v),
                forall|k2: usize| k2 != k && old(m)@.contains_key(k2) ==> final(m)@[k2] == old(m)@[k2]
    { unimplemented!() }
    // rule A5 (statement as oracle): `blocks = Some(token.blocks().enumerate().map(|(i, block)| .. load_and_translate_block(&mut b, i, ..) ..).collect()?)`
    // iterator adaptors + closures capturing &mut: outside Verus. ASSUMED: one decoded block per container block plus the authority,
    // the key -> block map is only read (load_and_translate_block::ensures.key_map_untouched, proved above)
    #[verifier::external_body]
    pub fn verif_load_blocks(token: &Biscuit, symbols: &mut SymbolTable, m: &mut HashMap<usize, Vec<usize>>, world: &mut World) -> (r: Result<Vec<Block>, error::Token>)
        ensures *final(m) == *old(m), r is Ok ==> r->Ok_0@.len() == 1 + token.container.blocks@.len(),
                final(world).iterations == old(world).iterations, final(world).extern_funcs == old(world).extern_funcs,
                // block indices are below usize::MAX (load_and_translate_block::ensures.facts_origin / rules_scope with i = block index)
                forall|p: (Set<usize>, Fact)| fs_view(final(world).facts).contains(p) && !fs_view(old(world).facts).contains(p) ==> !p.0.contains(usize::MAX),
                forall|e: (usize, Set<usize>, Rule)| rs_view(final(world).rules).contains(e) && !rs_view(old(world).rules).contains(e) ==> e.0 != usize::MAX
    { unimplemented!() }

    impl AuthorizerBuilder {
        //@extract biscuit-auth/src/token/builder/authorizer.rs :: impl AuthorizerBuilder :: fn build_inner
        //@ rewrites R19
        //@ attr #[verifier::loop_isolation(false)]
        //@ sub public_key_to_block_id\s*\.entry\(([^()]*)\)\s*\.or_default\(\)\s*\.push\(([^()]*)\); => verif_map_push(&mut public_key_to_block_id, \1, \2); /*pushed*/
        //@ sub blocks = Some\(\s*token\s*\.blocks\(\)[\s\S]*?\.collect::<Result<Vec<_>, _>>\(\)\?,\s*\); => blocks = Some(verif_load_blocks(token, &mut symbols, &mut public_key_to_block_id, &mut world)?);
        //@ sub self\s*\.authorizer_block_builder\s*\.scopes\s*\.clone\(\)\s*\.iter\(\)\s*\.map\(\|s\| s\.convert\(&mut symbols\)\)\s*\.collect\(\) => crate::builder::verif_convert_scopes(&self.authorizer_block_builder.scopes, &mut symbols)
        //@ loop 0 invariant bound: i <= token.container.blocks@.len()
        //@ loop 0 invariant keys: symbols.public_keys.keys@ == first_keys(token.container.blocks@, i as int) && no_dup(symbols.public_keys.keys@)
        //@ loop 0 invariant map: keymap_upto(token.container.blocks@, i as int, public_key_to_block_id@)
        //@ loop 0 decreases token.container.blocks@.len() - i
        //@ ghost loop 0 start :: let ghost m0 = public_key_to_block_id@; let ghost keys0 = symbols.public_keys.keys@;
        //@ ghost before "verif_map_push(&mut public_key_to_block_id," :: proof { assert(new_key_id < symbols.public_keys.keys@.len()); assert(symbols.public_keys.keys@.len() <= usize::MAX); assert(new_key_id as usize == new_key_id); }
        //@ ghost after "/*pushed*/" :: proof { lemma_keymap_step(token.container.blocks@, i as int, m0, public_key_to_block_id@, keys0, symbols.public_keys.keys@, new_key_id as usize); }
        //@ ghost before "i += 1; } }" :: proof { if token.container.blocks@[i as int].external_signature is None { lemma_keymap_skip(token.container.blocks@, i as int, public_key_to_block_id@); } }
        //@ ghost before "let mut authorizer_origin" :: proof { if token is Some { let a = [token::Scope::Previous]; assert(a@ =~= seq![token::Scope::Previous]); } }
        //@ ghost before "for fact in" :: let ghost m = public_key_to_block_id@; let ghost at = authz_trust(self.authorizer_block_builder.scopes@, m); proof { lemma_tset(authorizer_trusted_origins.0.inner@, authorizer_scopes@, default_trust(), usize::MAX, m); assert(authorizer_scopes@ =~= conv_scopes(self.authorizer_block_builder.scopes@)); }
        //@ loop 1 ghost it1
        //@ loop 1 invariant frame: world.iterations == 0 && public_key_to_block_id@ == m && authorizer_origin.inner@ =~= set![usize::MAX]
        //@ loop 1 invariant elems: it1.seq().len() == self.authorizer_block_builder.facts@.len() && forall|k: int| 0 <= k < it1.seq().len() ==> *(#[trigger] it1.seq()[k]) == self.authorizer_block_builder.facts@[k]
        //@ loop 1 invariant origin: forall|p: (Set<usize>, Fact)| fs_view(world.facts).contains(p) && p.0.contains(usize::MAX) ==> p.0 == set![usize::MAX]
        //@ loop 1 invariant stored: forall|k: int| 0 <= k < it1.index@ ==> fs_view(world.facts).contains((set![usize::MAX], fact_to(#[trigger] self.authorizer_block_builder.facts@[k])))
        //@ loop 1 invariant rules: forall|e: (usize, Set<usize>, Rule)| rs_view(world.rules).contains(e) ==> e.0 != usize::MAX
        //@ ghost after_loop 1 :: let ghost facts1 = world.facts;
        //@ loop 2 ghost it2
        //@ loop 2 invariant frame: world.iterations == 0 && public_key_to_block_id@ == m && world.facts == facts1
        //@ loop 2 invariant elems: it2.seq().len() == self.authorizer_block_builder.rules@.len() && forall|k: int| 0 <= k < it2.seq().len() ==> *(#[trigger] it2.seq()[k]) == self.authorizer_block_builder.rules@[k]
        //@ loop 2 invariant scope: forall|e: (usize, Set<usize>, Rule)| rs_view(world.rules).contains(e) && e.0 == usize::MAX ==> has_tset(e.1, e.2.scopes@, at, usize::MAX, m)
        //@ loop 2 invariant stored: forall|k: int| 0 <= k < it2.index@ ==> auth_rule_stored(world.rules, conv_rule(#[trigger] self.authorizer_block_builder.rules@[k]), at, m)
        //@ ghost before "world.rules.insert(" :: proof { lemma_tset(rule_trusted_origins.0.inner@, rule.scopes@, at, usize::MAX, m); }
        //@ ensures key_map: r is Ok && token is Some ==> keymap_upto(token->Some_0.container.blocks@, token->Some_0.container.blocks@.len() as int, r->Ok_0.public_key_to_block_id@)
        //@ ensures key_map_empty: r is Ok && token is None ==> r->Ok_0.public_key_to_block_id@.dom() =~= Set::<usize>::empty()
        //@ ensures token_origins: r is Ok && token is Some ==> has_tset(r->Ok_0.token_origins.0.inner@, seq![token::Scope::Previous], default_trust(), (1 + token->Some_0.container.blocks@.len()) as usize, r->Ok_0.public_key_to_block_id@)
        //@ ensures blocks: r is Ok ==> (token is None ==> r->Ok_0.blocks is None) && (token is Some ==> r->Ok_0.blocks is Some && r->Ok_0.blocks->Some_0@.len() == 1 + token->Some_0.container.blocks@.len())
        //@ ensures auth_facts: r is Ok ==> (forall|p: (Set<usize>, Fact)| fs_view(r->Ok_0.world.facts).contains(p) && p.0.contains(usize::MAX) ==> p.0 == set![usize::MAX]) && forall|k: int| 0 <= k < self.authorizer_block_builder.facts@.len() ==> fs_view(r->Ok_0.world.facts).contains((set![usize::MAX], fact_to(#[trigger] self.authorizer_block_builder.facts@[k])))
        //@ ensures auth_rules: r is Ok ==> (forall|e: (usize, Set<usize>, Rule)| rs_view(r->Ok_0.world.rules).contains(e) && e.0 == usize::MAX ==> has_tset(e.1, e.2.scopes@, authz_trust(self.authorizer_block_builder.scopes@, r->Ok_0.public_key_to_block_id@), usize::MAX, r->Ok_0.public_key_to_block_id@)) && forall|k: int| 0 <= k < self.authorizer_block_builder.rules@.len() ==> auth_rule_stored(r->Ok_0.world.rules, conv_rule(#[trigger] self.authorizer_block_builder.rules@[k]), authz_trust(self.authorizer_block_builder.scopes@, r->Ok_0.public_key_to_block_id@), r->Ok_0.public_key_to_block_id@)
        //@ ensures fresh: r is Ok ==> r->Ok_0.execution_time is None && r->Ok_0.world.iterations == 0 && r->Ok_0.limits == self.limits && r->Ok_0.policies == self.policies && r->Ok_0.authorizer_block_builder == self.authorizer_block_builder
        //@end
    }
}
pub mod snapshot {
    // token/authorizer/snapshot.rs: restoring an authorizer from (untrusted) snapshot bytes
    use vstd::prelude::*;
    use crate::verif_std::*;
    use crate::builder::{BlockBuilder, Policy, Fact as BFact2, Rule as BRule, Scope as BScope, conv_rule, conv_scope, fact_to};
    use crate::token2::Block;
    use crate::datalog2 as datalog;
    use crate::datalog2::{SymbolTable, World, ExternFunc, Fact, Rule, fs_view, rs_view};
    use crate::datalog::origin::{Origin, TrustedOrigins};
    use crate::authorizer2::{Authorizer, AuthorizerBuilder, Duration, RunLimits, verif_map_push};
    use crate::authorizer_builder::load_and_translate_block;
    use crate::crypto::PublicKey;
    use crate::error;
    use crate::token;
    use std::collections::HashMap;
    use crate::ospec::*;
    use crate::lspec::*;
    broadcast use {crate::error::qm_axioms, vstd::std_specs::hash::group_hash_axioms};
    pub const MIN_SCHEMA_VERSION: u32 = 3;
    pub const MAX_SCHEMA_VERSION: u32 = 6;
    pub mod schema {
        use vstd::prelude::*;
        //@extract biscuit-auth/src/format/schema.rs :: struct AuthorizerSnapshot
        //@end
        //@extract biscuit-auth/src/format/schema.rs :: struct RunLimits
        //@end
        //@extract biscuit-auth/src/format/schema.rs :: struct AuthorizerWorld
        //@end
        //@extract biscuit-auth/src/format/schema.rs :: struct GeneratedFacts
        //@end
        #[verifier::external_body] pub struct PublicKey { _p: u8 }
        // stand-in for schema::SnapshotBlock: the field from_snapshot reads
        pub struct SnapshotBlock { pub external_key: Option<PublicKey>, pub verif_rest: u64 }
        #[verifier::external_body] pub struct Policy { _p: u8 }
        #[verifier::external_body] pub struct Origin { _p: u8 }
        #[verifier::external_body] pub struct FactV2 { _p: u8 }
    }
    use schema::GeneratedFacts;
    // ASSUMED (conversion code, fmt / prost / iterator chains): fallible, total
    #[verifier::external_body] pub fn default_symbol_table() -> (r: SymbolTable) { unimplemented!() }
    #[verifier::external_body] pub fn proto_snapshot_block_to_token_block(b: &schema::SnapshotBlock) -> Result<Block, error::Format> { unimplemented!() }
    #[verifier::external_body] pub fn proto_fact_to_token_fact(f: &schema::FactV2) -> Result<Fact, error::Format> { unimplemented!() }
    #[verifier::external_body] pub fn proto_origin_to_authorizer_origin(o: &Vec<schema::Origin>) -> Result<Origin, error::Format> { unimplemented!() }
    #[verifier::external_body] pub fn verif_policies_from(p: &Vec<schema::Policy>, symbols: &SymbolTable, version: u32) -> Result<Vec<Policy>, error::Format> { unimplemented!() }
    // `Some(execution_time).filter(|_| execution_time > Duration::default())`
    #[verifier::external_body] pub fn verif_nonzero(d: Duration) -> (r: Option<Duration>) ensures r == (if d.nanos > 0 { Some(d) } else { None::<Duration> }) { unimplemented!() }
    impl PublicKey { #[verifier::external_body] pub fn from_proto(k: &schema::PublicKey) -> Result<PublicKey, error::Format> { unimplemented!() } }
    impl SymbolTable { #[verifier::external_body] pub fn insert(&mut self, s: &String) -> u64 { unimplemented!() } }
    impl BlockBuilder { #[verifier::external_body] pub fn convert_from(block: &Block, symbols: &SymbolTable) -> Result<BlockBuilder, error::Format> { unimplemented!() } }
    impl crate::builder::Fact { #[verifier::external_body] pub fn convert_from2(f: &Fact, symbols: &SymbolTable) -> Result<crate::builder::Fact, error::Format> { unimplemented!() } }
    impl Authorizer {
        // ASSUMED (token/authorizer.rs Authorizer::new): an empty authorizer
        #[verifier::external_body]
        pub fn new() -> (r: Authorizer)
            ensures r.blocks is None, r.execution_time is None, r.world.iterations == 0, r.public_key_to_block_id@.dom() =~= Set::<usize>::empty()
        { unimplemented!() }
    }
    // C03 / C07 on the snapshot path: block j is registered in the key -> block map exactly when it carries an external key
    pub open spec fn snap_keymap(blocks: Seq<Block>, n: int, m: Map<usize, Vec<usize>>) -> bool {
        (forall|k: usize, j: usize| #[trigger] key_has(m, k, j) ==> j < n && blocks[j as int].external_key is Some)
        && (forall|j: int| 0 <= j < n && (#[trigger] blocks[j]).external_key is Some ==> exists|k: usize| #[trigger] key_has(m, k, j as usize))
    }
    // everything from_snapshot has settled before it fills the world
    pub open spec fn same_meta(a: Authorizer, b: Authorizer) -> bool {
        a.blocks == b.blocks && a.public_key_to_block_id == b.public_key_to_block_id && a.token_origins == b.token_origins && a.limits == b.limits
        && a.execution_time == b.execution_time && a.world.iterations == b.world.iterations && a.authorizer_block_builder == b.authorizer_block_builder && a.policies == b.policies
    }
    // one iteration of the block loop: the map is either unchanged (no external key) or block i was pushed under one key
    pub proof fn lemma_snap_keymap_step(b0: Seq<Block>, b1: Seq<Block>, iu: usize, m0: Map<usize, Vec<usize>>, m1: Map<usize, Vec<usize>>)
        requires b0.len() == iu as int, b1.len() == iu as int + 1, iu as int + 1 <= usize::MAX, forall|q: int| 0 <= q < iu as int ==> b1[q] == b0[q], snap_keymap(b0, iu as int, m0),
                 b1[iu as int].external_key is None ==> m1 == m0,
                 b1[iu as int].external_key is Some ==> exists|kid: usize| #[trigger] push_rel(m0, m1, kid, iu),
        ensures snap_keymap(b1, iu as int + 1, m1)
    {
        let i = iu as int;
        if b1[i].external_key is Some {
            let kid = choose|kid: usize| #[trigger] push_rel(m0, m1, kid, iu);
            let s0 = if m0.contains_key(kid) { m0[kid]@ } else { Seq::<usize>::empty() };
            assert(m1[kid]@ == s0.push(iu));
            assert(m1[kid]@[s0.len() as int] == iu);
            assert(key_has(m1, kid, iu));
            assert forall|k: usize, j: usize| #[trigger] key_has(m1, k, j) implies j < i + 1 && b1[j as int].external_key is Some by {
                if k == kid {
                    let w = choose|w: int| 0 <= w < m1[kid]@.len() && m1[kid]@[w] == j;
                    if w < s0.len() { assert(s0[w] == j); assert(key_has(m0, k, j)); }
                } else { assert(key_has(m0, k, j)); }
            }
            assert forall|j: int| 0 <= j < i + 1 && (#[trigger] b1[j]).external_key is Some implies exists|k: usize| #[trigger] key_has(m1, k, j as usize) by {
                if j < i {
                    assert(b0[j].external_key is Some);
                    let k = choose|k: usize| #[trigger] key_has(m0, k, j as usize);
                    if k == kid { let w = choose|w: int| 0 <= w < s0.len() && s0[w] == j as usize; assert(s0.push(iu)[w] == j as usize); }
                    assert(key_has(m1, k, j as usize));
                } else { assert(j as usize == iu); assert(key_has(m1, kid, j as usize)); }
            }
        } else {
            assert forall|j: int| 0 <= j < i + 1 && (#[trigger] b1[j]).external_key is Some implies exists|k: usize| #[trigger] key_has(m1, k, j as usize) by {
                assert(b0[j].external_key is Some);
            }
        }
    }
    pub open spec fn push_rel(m0: Map<usize, Vec<usize>>, m1: Map<usize, Vec<usize>>, k: usize, v: usize) -> bool {
        m1.dom() == m0.dom().insert(k) && m1[k]@ == (if m0.contains_key(k) { m0[k]@ } else { Seq::<usize>::empty() }).push(v)
        && forall|k2: usize| k2 != k && m0.contains_key(k2) ==> m1[k2] == m0[k2]
    }
    impl crate::authorizer2::AuthorizerBuilder {
        #[verifier::external_body]
        pub fn new() -> (r: crate::authorizer2::AuthorizerBuilder) { unimplemented!() }
        //@extract biscuit-auth/src/token/builder/authorizer.rs :: impl AuthorizerBuilder :: fn from_snapshot
        //@ id token::builder::authorizer::AuthorizerBuilder::from_snapshot
        //@ sub \(MIN_SCHEMA_VERSION\.\.=MAX_SCHEMA_VERSION\)\.contains\(&version\) => (MIN_SCHEMA_VERSION <= version && version <= MAX_SCHEMA_VERSION)
        //@ sub crate::token::MIN_SCHEMA_VERSION => MIN_SCHEMA_VERSION
        //@ sub crate::token::MAX_SCHEMA_VERSION => MAX_SCHEMA_VERSION
        //@ sub world\s*\.authorizer_policies\s*\.iter\(\)\s*\.map\(\|policy\| proto_policy_to_policy\(policy, &symbols, version\)\)\s*\.collect::<Result<Vec<Policy>, error::Format>>\(\)\? => verif_policies_from(&world.authorizer_policies, &symbols, version)?
        //@ ensures pristine: r is Ok ==> input.world.blocks@.len() == 0 && input.world.generated_facts@.len() == 0 && input.world.iterations == 0 && input.execution_time == 0
        //@ ensures version: r is Ok ==> input.world.version is Some && MIN_SCHEMA_VERSION <= input.world.version->Some_0 <= MAX_SCHEMA_VERSION
        //@ ensures limits: r is Ok ==> r->Ok_0.limits.max_facts == input.limits.max_facts && r->Ok_0.limits.max_iterations == input.limits.max_iterations && r->Ok_0.limits.max_time.nanos == input.limits.max_time
        //@end
    }
    impl Authorizer {
        //@extract biscuit-auth/src/token/authorizer/snapshot.rs :: impl Authorizer :: fn from_snapshot
        //@ rewrites R19
        //@ attr #[verifier::loop_isolation(false)]
        //@ sub \(MIN_SCHEMA_VERSION\.\.=MAX_SCHEMA_VERSION\)\.contains\(&version\) => (MIN_SCHEMA_VERSION <= version && version <= MAX_SCHEMA_VERSION)
        //@ sub crate::token::MIN_SCHEMA_VERSION => MIN_SCHEMA_VERSION
        //@ sub crate::token::MAX_SCHEMA_VERSION => MAX_SCHEMA_VERSION
        //@ sub world\s*\.authorizer_policies\s*\.iter\(\)\s*\.map\(\|policy\| proto_policy_to_policy\(policy, &symbols, version\)\)\s*\.collect::<Result<Vec<Policy>, error::Format>>\(\)\? => verif_policies_from(&world.authorizer_policies, &symbols, version)?
        //@ sub Some\(execution_time\)\.filter\(\|_\w*\| execution_time > Duration::default\(\)\) => verif_nonzero(execution_time)
        //@ sub public_key_to_block_id\s*\.entry\(authorizer\.symbols\.public_keys\.insert\(key\) as usize\)\s*\.or_default\(\)\s*\.push\(([^()]*)\); => let verif_kid = authorizer.symbols.public_keys.insert(key) as usize; verif_map_push(&mut public_key_to_block_id, verif_kid, \1); /*pushed*/
        //@ sub authorizer\s*\.authorizer_block_builder\s*\.scopes\s*\.clone\(\)\s*\.iter\(\)\s*\.map\(\|s\| s\.convert\(&mut authorizer\.symbols\)\)\s*\.collect\(\) => crate::builder::verif_convert_scopes(&authorizer.authorizer_block_builder.scopes, &mut authorizer.symbols)
        //@ sub crate::builder::Fact::convert_from\(&fact, &authorizer\.symbols\)\? => crate::builder::Fact::convert_from2(&fact, &authorizer.symbols)?
        //@ sub super::Authorizer::new\(\) => Authorizer::new()
        //@ sub crate::token::Scope:: => token::Scope::
        //@ sub &origins => &origins
        //@ ghost before "let mut public_key_to_block_id" :: let ghost a_lim = authorizer.limits; let ghost a_time = authorizer.execution_time;
        //@ loop 2 invariant bound: i <= world.blocks@.len() && blocks@.len() == i
        //@ loop 2 invariant map: snap_keymap(blocks@, i as int, public_key_to_block_id@)
        //@ loop 2 invariant frame: authorizer.limits == a_lim && authorizer.execution_time == a_time && authorizer.blocks is None && authorizer.world.iterations == 0
        //@ loop 2 decreases world.blocks@.len() - i
        //@ ghost loop 2 start :: let ghost m0 = public_key_to_block_id@; let ghost b0 = blocks@;
        //@ ghost after "/*pushed*/" #0 :: proof { assert(push_rel(m0, public_key_to_block_id@, verif_kid, i)); }
        //@ ghost before "i += 1; } }" :: proof { lemma_snap_keymap_step(b0, blocks@, i, m0, public_key_to_block_id@); }
        //@ ghost before "let mut authorizer_origin" :: let ghost a0 = authorizer; proof { if a0.blocks is Some { let arr = [token::Scope::Previous]; assert(arr@ =~= seq![token::Scope::Previous]); } }
        //@ loop 3 ghost it3
        //@ loop 3 invariant frame: same_meta(authorizer, a0)
        //@ loop 4 ghost it4
        //@ loop 4 invariant frame: same_meta(authorizer, a0)
        //@ loop 5 ghost it5
        //@ loop 5 invariant frame: same_meta(authorizer, a0)
        //@ loop 6 ghost it6
        //@ loop 6 invariant frame: same_meta(authorizer, a0)
        //@ ensures blocks_nonempty: r is Ok && r->Ok_0.blocks is Some ==> r->Ok_0.blocks->Some_0@.len() >= 1
        //@ ensures key_map: r is Ok && r->Ok_0.blocks is Some ==> snap_keymap(r->Ok_0.blocks->Some_0@, r->Ok_0.blocks->Some_0@.len() as int, r->Ok_0.public_key_to_block_id@)
        //@ ensures key_map_empty: r is Ok && r->Ok_0.blocks is None ==> forall|k: usize, j: usize| !key_has(r->Ok_0.public_key_to_block_id@, k, j)
        //@ ensures token_origins: r is Ok && r->Ok_0.blocks is Some ==> has_tset(r->Ok_0.token_origins.0.inner@, seq![token::Scope::Previous], default_trust(), r->Ok_0.blocks->Some_0@.len() as usize, r->Ok_0.public_key_to_block_id@)
        //@ ensures limits: r is Ok ==> r->Ok_0.limits.max_facts == input.limits.max_facts && r->Ok_0.limits.max_iterations == input.limits.max_iterations && r->Ok_0.limits.max_time.nanos == input.limits.max_time
        //@ ensures counters: r is Ok ==> r->Ok_0.world.iterations == input.world.iterations && (r->Ok_0.execution_time is Some <==> input.execution_time > 0) && (r->Ok_0.execution_time is Some ==> r->Ok_0.execution_time->Some_0.nanos == input.execution_time)
        //@ ensures version: r is Ok ==> input.world.version is Some && MIN_SCHEMA_VERSION <= input.world.version->Some_0 <= MAX_SCHEMA_VERSION
        //@end
    }
}
pub mod lspec {
    use vstd::prelude::*;
    use crate::token2::Block;
    use crate::datalog2::{SymbolTable, Rule, RuleSet, rs_view};
    use crate::ospec::*;
    use crate::token::Scope;
    // C07: a third-party block (external key present, not the authority) is read with ITS OWN symbol table,
    // every other block with the token's
    pub open spec fn source_symbols(b: Block, i: usize, token_symbols: SymbolTable) -> SymbolTable {
        if i == 0 || b.external_key is None { token_symbols } else { b.symbols }
    }
    pub open spec fn has_tset(s: Set<usize>, scopes: Seq<Scope>, dflt: Set<usize>, cur: usize, m: Map<usize, Vec<usize>>) -> bool {
        forall|x: usize| s.contains(x) <==> trusted_spec(scopes, dflt, cur, m, x)
    }
    pub open spec fn tset(scopes: Seq<Scope>, dflt: Set<usize>, cur: usize, m: Map<usize, Vec<usize>>) -> Set<usize> {
        choose|s: Set<usize>| has_tset(s, scopes, dflt, cur, m)
    }
    pub proof fn lemma_tset(s: Set<usize>, scopes: Seq<Scope>, dflt: Set<usize>, cur: usize, m: Map<usize, Vec<usize>>)
        requires has_tset(s, scopes, dflt, cur, m)
        ensures s == tset(scopes, dflt, cur, m)
    {
        let t = tset(scopes, dflt, cur, m);
        assert(has_tset(t, scopes, dflt, cur, m));
        assert(s =~= t);
    }
    // what block i trusts by default: its own scopes over {authority, authorizer}
    pub open spec fn block_trust(block_scopes: Seq<Scope>, i: usize, m: Map<usize, Vec<usize>>) -> Set<usize> {
        tset(block_scopes, default_trust(), i, m)
    }
    // ---- key -> block map (C07: a key scope trusts exactly the blocks signed with that key) ----
    // the distinct external keys of blocks[0..n), in order of first occurrence: the index of a key in the
    // authorizer's key table (the table is empty when the loop starts)
    pub open spec fn first_keys(blocks: Seq<crate::crypto::Block>, n: int) -> Seq<crate::crypto::PublicKey>
        decreases n
    {
        if n <= 0 { Seq::empty() }
        else {
            let p = first_keys(blocks, n - 1);
            match blocks[n - 1].external_signature {
                Some(sig) => if p.contains(sig.public_key) { p } else { p.push(sig.public_key) },
                None => p,
            }
        }
    }
    pub open spec fn key_has(m: Map<usize, Vec<usize>>, k: usize, j: usize) -> bool { m.contains_key(k) && m[k]@.contains(j) }
    // block j (1-based: container block j - 1) is registered under key index k iff it carries an external signature by that key
    pub open spec fn keymap_upto(blocks: Seq<crate::crypto::Block>, n: int, m: Map<usize, Vec<usize>>) -> bool {
        forall|k: usize, j: usize| #[trigger] key_has(m, k, j) <==> (1 <= j <= n && blocks[j - 1].external_signature is Some && k < first_keys(blocks, n).len()
            && first_keys(blocks, n)[k as int] == blocks[j - 1].external_signature->Some_0.public_key)
    }
    pub open spec fn no_dup(s: Seq<crate::crypto::PublicKey>) -> bool { forall|a: int, b: int| 0 <= a < b < s.len() ==> s[a] != s[b] }
    pub proof fn lemma_first_keys_contains(blocks: Seq<crate::crypto::Block>, n: int, j: int)
        requires 1 <= j <= n <= blocks.len(), blocks[j - 1].external_signature is Some
        ensures first_keys(blocks, n).contains(blocks[j - 1].external_signature->Some_0.public_key)
        decreases n
    {
        let pkj = blocks[j - 1].external_signature->Some_0.public_key;
        let p = first_keys(blocks, n - 1);
        if j == n {
            if !p.contains(pkj) { assert(p.push(pkj)[p.len() as int] == pkj); }
        } else {
            lemma_first_keys_contains(blocks, n - 1, j);
            let w = choose|w: int| 0 <= w < p.len() && p[w] == pkj;
            match blocks[n - 1].external_signature {
                Some(sig) => { if !p.contains(sig.public_key) { assert(p.push(sig.public_key)[w] == pkj); } }
                None => {}
            }
        }
    }
    pub proof fn lemma_keymap_skip(blocks: Seq<crate::crypto::Block>, i: int, m: Map<usize, Vec<usize>>)
        requires 0 <= i < blocks.len(), keymap_upto(blocks, i, m), blocks[i].external_signature is None
        ensures keymap_upto(blocks, i + 1, m), first_keys(blocks, i + 1) == first_keys(blocks, i)
    {
        assert forall|k: usize, j: usize| #[trigger] key_has(m, k, j) <==> (1 <= j <= i + 1 && blocks[j - 1].external_signature is Some && k < first_keys(blocks, i + 1).len()
            && first_keys(blocks, i + 1)[k as int] == blocks[j - 1].external_signature->Some_0.public_key) by {}
    }
    pub proof fn lemma_keymap_step(blocks: Seq<crate::crypto::Block>, i: int, m0: Map<usize, Vec<usize>>, m1: Map<usize, Vec<usize>>,
                                   keys0: Seq<crate::crypto::PublicKey>, keys1: Seq<crate::crypto::PublicKey>, r: usize)
        requires 0 <= i < blocks.len(), i + 1 <= usize::MAX, keys0 == first_keys(blocks, i), no_dup(keys0), keymap_upto(blocks, i, m0),
                 blocks[i].external_signature is Some,
                 keys1 == (if keys0.contains(blocks[i].external_signature->Some_0.public_key) { keys0 } else { keys0.push(blocks[i].external_signature->Some_0.public_key) }),
                 r < keys1.len(), keys1[r as int] == blocks[i].external_signature->Some_0.public_key,
                 m1.dom() == m0.dom().insert(r),
                 m1[r]@ == (if m0.contains_key(r) { m0[r]@ } else { Seq::<usize>::empty() }).push((i + 1) as usize),
                 forall|k2: usize| k2 != r && m0.contains_key(k2) ==> m1[k2] == m0[k2],
        ensures keys1 == first_keys(blocks, i + 1), no_dup(keys1), keymap_upto(blocks, i + 1, m1)
    {
        let pk = blocks[i].external_signature->Some_0.public_key;
        assert(no_dup(keys1)) by {
            if !keys0.contains(pk) {
                assert forall|a: int, b: int| 0 <= a < b < keys1.len() implies keys1[a] != keys1[b] by {
                    if b == keys0.len() { if keys1[a] == keys1[b] { assert(keys0[a] == pk); assert(keys0.contains(pk)); } }
                }
            }
        }
        let jn = (i + 1) as usize;
        assert forall|k: usize, j: usize| #[trigger] key_has(m1, k, j) <==> (1 <= j <= i + 1 && blocks[j - 1].external_signature is Some && k < keys1.len()
            && keys1[k as int] == blocks[j - 1].external_signature->Some_0.public_key) by {
            let rhs1 = 1 <= j <= i + 1 && blocks[j - 1].external_signature is Some && k < keys1.len() && keys1[k as int] == blocks[j - 1].external_signature->Some_0.public_key;
            let rhs0 = 1 <= j <= i && blocks[j - 1].external_signature is Some && k < keys0.len() && keys0[k as int] == blocks[j - 1].external_signature->Some_0.public_key;
            assert(key_has(m0, k, j) <==> rhs0);
            // what the push did
            if k == r {
                let s0 = if m0.contains_key(r) { m0[r]@ } else { Seq::<usize>::empty() };
                assert(m1[r]@ == s0.push(jn));
                assert(m1[r]@.contains(j) <==> (s0.contains(j) || j == jn)) by {
                    if s0.contains(j) { let w = choose|w: int| 0 <= w < s0.len() && s0[w] == j; assert(s0.push(jn)[w] == j); }
                    if j == jn { assert(s0.push(jn)[s0.len() as int] == jn); }
                    if m1[r]@.contains(j) { let w = choose|w: int| 0 <= w < m1[r]@.len() && m1[r]@[w] == j; if w < s0.len() { assert(s0[w] == j); } }
                }
                assert(key_has(m1, k, j) <==> (key_has(m0, k, j) || j == jn));
            } else {
                assert(key_has(m1, k, j) <==> key_has(m0, k, j));
            }
            if j == jn {
                assert(!key_has(m0, k, j));
                if k < keys1.len() && keys1[k as int] == pk && k != r { assert(keys1[k as int] == keys1[r as int]); }
            } else if 1 <= j <= i && blocks[j - 1].external_signature is Some {
                lemma_first_keys_contains(blocks, i, j as int);
                if k == keys0.len() && !keys0.contains(pk) { }
            }
        }
    }
    pub open spec fn conv_scopes(s: Seq<crate::builder::Scope>) -> Seq<Scope> { s.map_values(|x: crate::builder::Scope| crate::builder::conv_scope(x)) }
    // what the authorizer's own rules and policies trust by default: the authorizer scopes over {authority, authorizer}
    pub open spec fn authz_trust(scopes: Seq<crate::builder::Scope>, m: Map<usize, Vec<usize>>) -> Set<usize> {
        tset(conv_scopes(scopes), default_trust(), usize::MAX, m)
    }
    pub open spec fn auth_rule_stored(rs: RuleSet, rule: Rule, at: Set<usize>, m: Map<usize, Vec<usize>>) -> bool {
        rs_view(rs).contains((usize::MAX, tset(rule.scopes@, at, usize::MAX, m), rule))
    }
    pub open spec fn rule_stored(rs: RuleSet, i: usize, rule: Rule, block_scopes: Seq<Scope>, m: Map<usize, Vec<usize>>) -> bool {
        rs_view(rs).contains((i, tset(rule.scopes@, block_trust(block_scopes, i, m), i, m), rule))
    }
}
//@canary third-party-symbols-flipped :: token::builder::authorizer::load_and_translate_block :: if i == 0 || block.external_key.is_none() { ==>> if block.external_key.is_some() {
//@canary third-party-symbols-authority :: token::builder::authorizer::load_and_translate_block :: if i == 0 || block.external_key.is_none() { ==>> if block.external_key.is_none() {
//@canary fact-origin-authority :: token::builder::authorizer::load_and_translate_block :: block_origin.insert(i); ==>> block_origin.insert(0);
//@canary rule-default-not-block :: token::builder::authorizer::load_and_translate_block :: &block_trusted_origins, ==>> &TrustedOrigins::default(),
//@canary rule-origin-authority :: token::builder::authorizer::load_and_translate_block :: world.rules.insert(i, ==>> world.rules.insert(0,
//@canary block-trust-wrong-index :: token::builder::authorizer::load_and_translate_block :: &TrustedOrigins::default(),\n        i, ==>> &TrustedOrigins::default(),\n        0,
//@canary fact-not-stored :: token::builder::authorizer::load_and_translate_block :: world.facts.insert(&block_origin, fact.clone()); ==>> {}
//@canary rule-scopes-of-block :: token::builder::authorizer::load_and_translate_block :: &rule.scopes, ==>> &block.scopes,
//@canary key-map-block-index :: token::builder::authorizer::AuthorizerBuilder::build_inner :: .push(i + 1); ==>> .push(i);
//@canary token-origins-index :: token::builder::authorizer::AuthorizerBuilder::build_inner :: token.block_count(), ==>> token.block_count() - 1,
//@canary authorizer-rule-default :: token::builder::authorizer::AuthorizerBuilder::build_inner :: &authorizer_trusted_origins, ==>> &TrustedOrigins::default(),
//@canary authorizer-rule-origin :: token::builder::authorizer::AuthorizerBuilder::build_inner :: world.rules.insert(usize::MAX, ==>> world.rules.insert(0,
//@canary authorizer-fact-origin :: token::builder::authorizer::AuthorizerBuilder::build_inner :: authorizer_origin.insert(usize::MAX); ==>> authorizer_origin.insert(0);
//@canary key-map-first-block-as-authority :: token::builder::authorizer::AuthorizerBuilder::build_inner :: .push(i + 1); ==>> .push(if i > 0 { i + 1 } else { 0 });
//@canary-requires token::builder::authorizer::AuthorizerBuilder::build_inner
//@canary snapshot-empty-blocks-some :: token::authorizer::snapshot::Authorizer::from_snapshot :: if !blocks.is_empty() { ==>> if true {
//@canary snapshot-key-map-index :: token::authorizer::snapshot::Authorizer::from_snapshot :: .push(i); ==>> .push(i + 1);
//@canary snapshot-iterations-dropped :: token::authorizer::snapshot::Authorizer::from_snapshot :: authorizer.world.iterations = world.iterations; ==>> authorizer.world.iterations = 0;
//@canary snapshot-limits-mixed :: token::authorizer::snapshot::Authorizer::from_snapshot :: max_iterations: limits.max_iterations, ==>> max_iterations: limits.max_facts,
//@canary-requires token::authorizer::snapshot::Authorizer::from_snapshot
//@canary builder-snapshot-iterations :: token::builder::authorizer::AuthorizerBuilder::from_snapshot :: if world.iterations != 0 { ==>> if false {
//@canary-requires token::builder::authorizer::AuthorizerBuilder::from_snapshot
//@canary-requires token::builder::authorizer::load_and_translate_block
} // verus!
fn main() {}
