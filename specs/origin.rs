// =======================================================================================
// Unit `origin` — datalog/origin.rs (C03, C04): trusted-origin sets
// =======================================================================================
#![feature(allocator_api)]
#![allow(unused)]
use vstd::prelude::*;
use std::collections::BTreeSet;
use std::collections::HashMap;
verus! {
//@include origin_body.rs
} // verus!
fn main() {}
