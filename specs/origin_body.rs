pub mod verif_sets {
    use vstd::prelude::*;
    use std::collections::BTreeSet;
    use vstd::std_specs::iter::IteratorSpec;
    // ASSUMED specifications of the BTreeSet operations vstd does not cover
    pub uninterp spec fn iter_set<T, I>(i: I) -> Set<T>;
    pub assume_specification<T: Ord, A: std::alloc::Allocator + Clone> [BTreeSet::<T, A>::is_superset] (s: &BTreeSet<T, A>, o: &BTreeSet<T, A>) -> (r: bool)
        ensures r == o@.subset_of(s@);
    pub assume_specification<T: Ord, A: std::alloc::Allocator + Clone, I: IntoIterator<Item = T>> [<BTreeSet<T, A> as Extend<T>>::extend] (s: &mut BTreeSet<T, A>, i: I)
        ensures final(s)@ == old(s)@.union(iter_set::<T, I>(i));
    pub assume_specification<'a, T: 'a + Ord + Copy, A: std::alloc::Allocator + Clone, I: IntoIterator<Item = &'a T>> [<BTreeSet<T, A> as Extend<&'a T>>::extend] (s: &mut BTreeSet<T, A>, i: I)
        ensures final(s)@ == old(s)@.union(iter_set::<T, I>(i));
    pub broadcast axiom fn iter_set_range(r: std::ops::Range<usize>, x: usize)
        ensures #[trigger] iter_set::<usize, std::ops::Range<usize>>(r).contains(x) <==> (r.start <= x < r.end);
    // the items a slice iterator will yield are vstd's `remaining()` (a Seq<&usize>); stated
    // against any sequence `s` that is elementwise equal to it
    pub broadcast axiom fn iter_set_slice_iter<'a>(it: std::slice::Iter<'a, usize>, s: Seq<usize>, x: usize)
        ensures (it.remaining().len() == s.len() && forall|i: int| 0 <= i < s.len() ==> *(#[trigger] it.remaining()[i]) == s[i])
            ==> (#[trigger] iter_set::<usize, std::slice::Iter<'a, usize>>(it).contains(x) <==> #[trigger] s.contains(x));
    pub broadcast group set_axioms { iter_set_range, iter_set_slice_iter }
}

pub mod token {
    use vstd::prelude::*;
    //@extract biscuit-auth/src/token/mod.rs :: enum Scope
    //@end
}

pub mod datalog { pub mod origin {
    use vstd::prelude::*;
    use std::collections::BTreeSet;
    use std::collections::HashMap;
    use crate::token::Scope;
    use crate::verif_sets::*;
    use crate::ospec::*;
    use vstd::std_specs::iter::IteratorSpec;
    broadcast use {crate::verif_sets::set_axioms, vstd::std_specs::hash::group_hash_axioms};

    //@extract biscuit-auth/src/datalog/origin.rs :: struct Origin
    //@end
    //@extract biscuit-auth/src/datalog/origin.rs :: struct TrustedOrigins
    //@end
    // ASSUMED: derived Default / Clone are the empty set / a structural copy
    impl Default for Origin {
        #[verifier::external_body]
        fn default() -> (r: Self) ensures r.inner@ == Set::<usize>::empty() { unimplemented!() }
    }
    impl Clone for Origin {
        #[verifier::external_body]
        fn clone(&self) -> (r: Self) ensures r == *self { unimplemented!() }
    }
    impl Clone for TrustedOrigins {
        #[verifier::external_body]
        fn clone(&self) -> (r: Self) ensures r == *self { unimplemented!() }
    }

    impl Origin {
        //@extract biscuit-auth/src/datalog/origin.rs :: impl Origin :: fn insert
        //@ ensures set: final(self).inner@ == old(self).inner@.insert(i)
        //@end
        //@extract biscuit-auth/src/datalog/origin.rs :: impl Origin :: fn union
        //@ external_body
        //@ ensures set: r.inner@ == self.inner@.union(other.inner@)
        //@end
        //@extract biscuit-auth/src/datalog/origin.rs :: impl Origin :: fn is_superset
        //@ ensures set: r == other.inner@.subset_of(self.inner@)
        //@end
    }
    impl<'a> Extend<&'a usize> for Origin {
        //@extract biscuit-auth/src/datalog/origin.rs :: impl Extend<&'a usize> for Origin :: fn extend
        //@ ensures set: final(self).inner@ == old(self).inner@.union(iter_set::<usize, T>(iter))
        //@end
    }
    impl Extend<usize> for Origin {
        //@extract biscuit-auth/src/datalog/origin.rs :: impl Extend<usize> for Origin :: fn extend
        //@ ensures set: final(self).inner@ == old(self).inner@.union(iter_set::<usize, T>(iter))
        //@end
    }
    impl TrustedOrigins {
        //@extract biscuit-auth/src/datalog/origin.rs :: impl TrustedOrigins :: fn from_scopes
        //@ ensures spec: forall|x: usize| r.0.inner@.contains(x) <==> trusted_spec(rule_scopes@, default_origins.0.inner@, current_block, public_key_to_block_id@, x)
        //@ loop 0 ghost it
        //@ loop 0 invariant partial: forall|x: usize| origins.inner@.contains(x) <==> scoped_trust(rule_scopes@, it.index@ as int, current_block, public_key_to_block_id@, x)
        //@ ghost loop 0 start :: let ghost before = origins.inner@;
        //@ ghost loop 0 end :: proof {
        //@|    assert forall|x: usize| origins.inner@.contains(x) <==> scoped_trust(rule_scopes@, it.index@ + 1, current_block, public_key_to_block_id@, x) by {
        //@|        lemma_scoped_step(rule_scopes@, it.index@ as int, current_block, public_key_to_block_id@, x);
        //@|        assert(origins.inner@.contains(x) <==> (before.contains(x) || scope_adds(rule_scopes@[it.index@ as int], current_block, public_key_to_block_id@, x)));
        //@|    }
        //@| }
        //@end
        //@extract biscuit-auth/src/datalog/origin.rs :: impl TrustedOrigins :: fn default
        //@ ensures set: r.0.inner@ == default_trust()
        //@end
        //@extract biscuit-auth/src/datalog/origin.rs :: impl TrustedOrigins :: fn contains
        //@ ensures subset: r == fact_origin.inner@.subset_of(self.0.inner@)
        //@end
    }
} }

pub mod ospec {
    use vstd::prelude::*;
    use crate::token::Scope;
    pub open spec fn default_trust() -> Set<usize> { set![usize::MAX, 0usize] }

    // what ONE scope annotation adds to the trusted set of something loaded from block `cur`
    // (usize::MAX = the authorizer), given the map key id -> blocks signed by that key
    pub open spec fn scope_adds(s: Scope, cur: usize, m: Map<usize, Vec<usize>>, x: usize) -> bool {
        match s {
            Scope::Authority => x == 0,
            Scope::Previous => cur != usize::MAX && x <= cur,
            Scope::PublicKey(k) => m.dom().contains(k as usize) && m[k as usize]@.contains(x),
        }
    }
    pub open spec fn scoped_trust(scopes: Seq<Scope>, n: int, cur: usize, m: Map<usize, Vec<usize>>, x: usize) -> bool {
        x == usize::MAX || x == cur || exists|i: int| 0 <= i < n && scope_adds(#[trigger] scopes[i], cur, m, x)
    }
    pub proof fn lemma_scoped_step(scopes: Seq<Scope>, n: int, cur: usize, m: Map<usize, Vec<usize>>, x: usize)
        requires 0 <= n < scopes.len()
        ensures scoped_trust(scopes, n + 1, cur, m, x) <==> (scoped_trust(scopes, n, cur, m, x) || scope_adds(scopes[n], cur, m, x))
    {
        if scoped_trust(scopes, n + 1, cur, m, x) && !(x == usize::MAX || x == cur) {
            let i = choose|i: int| 0 <= i < n + 1 && scope_adds(#[trigger] scopes[i], cur, m, x);
            if i < n { assert(scoped_trust(scopes, n, cur, m, x)); }
        }
        if scope_adds(scopes[n], cur, m, x) { assert(scoped_trust(scopes, n + 1, cur, m, x)); }
    }
    // THE specification of the trusted-origin set (Biscuit specification, "Scopes"), as a
    // membership predicate: x is trusted by something loaded from block `cur` carrying `scopes`
    pub open spec fn trusted_spec(scopes: Seq<Scope>, dflt: Set<usize>, cur: usize, m: Map<usize, Vec<usize>>, x: usize) -> bool {
        if scopes.len() == 0 { dflt.contains(x) || x == cur || x == usize::MAX }
        else { scoped_trust(scopes, scopes.len() as int, cur, m, x) }
    }

    // ---- lemmas over the specification: each is a sentence of C03 / C04 ----------------
    // L1: default trust of something in block i is exactly {authority, i, authorizer}; of the
    //     authorizer itself {authority, authorizer}
    pub proof fn lemma_default_trust(i: usize, m: Map<usize, Vec<usize>>, x: usize)
        ensures trusted_spec(Seq::<Scope>::empty(), default_trust(), i, m, x) <==> (x == 0 || x == i || x == usize::MAX)
    {}
    // L3: `trusting previous` in block i (i not the authorizer) is exactly {0..=i} + authorizer
    pub proof fn lemma_previous(i: usize, m: Map<usize, Vec<usize>>, x: usize)
        requires i != usize::MAX
        ensures trusted_spec(seq![Scope::Previous], default_trust(), i, m, x) <==> (x <= i || x == usize::MAX)
    {
        let s = seq![Scope::Previous];
        assert(s[0] == Scope::Previous);
        if x <= i { assert(scope_adds(s[0], i, m, x)); }
    }
    // L4: `trusting <key k>` adds exactly the blocks registered under k
    pub proof fn lemma_public_key(k: u64, cur: usize, m: Map<usize, Vec<usize>>, x: usize)
        ensures trusted_spec(seq![Scope::PublicKey(k)], default_trust(), cur, m, x)
            <==> (x == cur || x == usize::MAX || (m.dom().contains(k as usize) && m[k as usize]@.contains(x)))
    {
        let s = seq![Scope::PublicKey(k)];
        assert(s[0] == Scope::PublicKey(k));
        if m.dom().contains(k as usize) && m[k as usize]@.contains(x) { assert(scope_adds(s[0], cur, m, x)); }
    }
    // "no scope of this list names a key under which block j is registered"
    pub open spec fn no_key_scope_for(scopes: Seq<Scope>, m: Map<usize, Vec<usize>>, j: usize) -> bool {
        forall|i: int| 0 <= i < scopes.len() ==> match #[trigger] scopes[i] {
            Scope::PublicKey(k) => !(m.dom().contains(k as usize) && m[k as usize]@.contains(j)),
            _ => true,
        }
    }
    // L2 (the attenuation lemma): a later block j (j > cur, or any token block j != 0 when cur is
    // the authorizer) is never trusted by a rule / check / policy of block `cur` unless one of its
    // scopes, or one of the scopes of its block, names a key under which j is registered
    pub proof fn lemma_attenuation(rule_scopes: Seq<Scope>, block_scopes: Seq<Scope>, cur: usize, m: Map<usize, Vec<usize>>, j: usize)
        requires
            j != usize::MAX, j != 0, j != cur,
            cur == usize::MAX || j > cur,
            no_key_scope_for(rule_scopes, m, j),
            no_key_scope_for(block_scopes, m, j),
        ensures
            // the block-level trusted set (default for its rules) does not contain j
            !trusted_spec(block_scopes, default_trust(), cur, m, j),
            // and neither does the rule-level one, whatever the block-level default contributed
            forall|dflt: Set<usize>| !dflt.contains(j) ==> !trusted_spec(rule_scopes, dflt, cur, m, j),
    {
        assert(!scoped_trust(block_scopes, block_scopes.len() as int, cur, m, j)) by {
            if scoped_trust(block_scopes, block_scopes.len() as int, cur, m, j) {
                let i = choose|i: int| 0 <= i < block_scopes.len() && scope_adds(#[trigger] block_scopes[i], cur, m, j);
                assert(scope_adds(block_scopes[i], cur, m, j));
            }
        }
        assert(!scoped_trust(rule_scopes, rule_scopes.len() as int, cur, m, j)) by {
            if scoped_trust(rule_scopes, rule_scopes.len() as int, cur, m, j) {
                let i = choose|i: int| 0 <= i < rule_scopes.len() && scope_adds(#[trigger] rule_scopes[i], cur, m, j);
                assert(scope_adds(rule_scopes[i], cur, m, j));
            }
        }
    }
    // L5: visibility is monotone in the trusted set and antitone in the fact origin
    pub proof fn lemma_contains_monotone(t1: Set<usize>, t2: Set<usize>, o1: Set<usize>, o2: Set<usize>)
        requires t1.subset_of(t2), o1.subset_of(o2)
        ensures o2.subset_of(t1) ==> o1.subset_of(t2)
    {}
}

//@canary default-too-wide :: datalog::origin::TrustedOrigins::default :: origins.insert(0); ==>> origins.insert(0); origins.insert(1);
//@canary previous-off-by-one :: datalog::origin::TrustedOrigins::from_scopes :: origins.extend(0..current_block + 1) ==>> origins.extend(0..current_block + 2)
//@canary previous-authorizer-guard :: datalog::origin::TrustedOrigins::from_scopes :: if current_block != usize::MAX { ==>> if current_block != 0 {
//@canary authority-wrong-block :: datalog::origin::TrustedOrigins::from_scopes :: origins.insert(0); ==>> origins.insert(1);
//@canary empty-scopes-own-block :: datalog::origin::TrustedOrigins::from_scopes :: origins.0.insert(current_block); ==>>
//@canary contains-intersection :: datalog::origin::TrustedOrigins::contains :: self.0.is_superset(fact_origin) ==>> fact_origin.is_superset(&self.0)
//@canary key-scope-other-key :: datalog::origin::TrustedOrigins::from_scopes :: public_key_to_block_id.get(&(*key_id as usize)) ==>> public_key_to_block_id.get(&((*key_id as usize) / 2))
