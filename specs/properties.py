"""Property -> units / items / texts. Read by tools/check.py."""

STANDING_TRUST = [
    'Verus 0.2026.09.13, Z3 4.12.5 (bundled), rustc 1.98.1: trusted',
    'extraction: tools/rustscan.py + rewrite.py (R1-R21, A1-A6) + unit.py are trusted to preserve run-time behaviour; DESIGN.md 3.2 lists every rewrite',
]
STANDING_ASSUMPTIONS = [
    'machine arithmetic is machine arithmetic (Verus checks overflow on executable + - * and casts); spec integers are mathematical',
    'the bodies of callees outside the unit are represented by their contracts (external_body / assume_specification entries in coverage.trusted_base)',
    'error message text is dropped by rewrite R4; derives other than Debug/Clone+Copy are dropped by R7',
]

CRYPTO_ASSUMPTIONS = [
    'cryptography is ideal: ed25519-dalek verify_strict / p256 ECDSA verification are uninterpreted predicates; signing satisfies them; unforgeability is NOT proved',
    'ed25519-dalek / p256 / ecdsa / zeroize stubs in specs/dep_crypto.rs: key and signature encodings are injective, decode(encode(k)) = k',
    'prost: decode is a partial function of the bytes, encode a total function of the message, decode(encode(m)) = m, nothing panics (specs/chain_format.rs)',
    '`?` converts errors with From::from (axioms qm_* in specs/error_mod.rs); derived Clone/PartialEq are structural',
]

_LEAF_VERIFY = [r'^crypto::ed25519::PublicKey::', r'^crypto::p256::PublicKey::', r'^crypto::PublicKey::',
                r'^crypto::Signature::', r'^error::Token::From']
_LEAF_SIGN = [r'^crypto::ed25519::KeyPair::', r'^crypto::p256::KeyPair::', r'^crypto::KeyPair::',
              r'^crypto::ed25519::PrivateKey::', r'^crypto::p256::PrivateKey::', r'^crypto::PrivateKey::']
_PAYLOADS = [r'^crypto::generate_']

PROPS = {
    'C01': {
        'units': [{'template': 'chain.rs', 'rlimit': 30, 'items': _LEAF_VERIFY + _PAYLOADS + [
            r'^crypto::verify_', r'^crypto::PrivateKey::(public|from_bytes)$', r'^crypto::KeyPair::(from|public)$',
            r'^crypto::(ed25519|p256)::(PrivateKey|KeyPair)::(public|from|from_bytes)$',
            r'^format::SerializedBiscuit::(from_slice|unsafe_from_slice|deserialize|verify|verify_inner)$']}],
        'proved': 'from_slice / unsafe_from_slice / verify / verify_inner return Ok only if chain_valid(token, root, legacy) holds: '
                  'the authority block is signed by the root key, block i by the next key of block i-1 over the specification layout of its '
                  'version (v1 covers version, payload, algorithm, next key, previous signature, external signature), third-party blocks carry a '
                  'valid external signature over payload + previous signature, and the proof matches the last block. deserialize computes wire_rel '
                  '(field-by-field map) and enforces both gates (authority has no external signature; safe mode: external signature => version 1). '
                  'The seven payload generators equal the layouts of the Biscuit specification for all inputs.',
        'not_covered': ['the prost decoder itself', 'cryptographic strength (unforgeability is an assumption)',
                        'full injectivity of the layouts (they carry no length framing)'],
        'assumptions': CRYPTO_ASSUMPTIONS,
    },
    'C02': {
        'units': [{'template': 'chain.rs', 'rlimit': 30, 'items': _LEAF_SIGN + _LEAF_VERIFY + _PAYLOADS + [
            r'^crypto::sign_', r'^crypto::TokenNext::',
            r'^format::SerializedBiscuit::(new|new_inner|append|append_serialized|seal|to_proto|to_vec|serialized_size|last_block|deserialize)$']}],
        'proved': 'new / append / append_serialized / seal produce containers satisfying chain_valid under the issuing root key (given the ideal '
                  'signature scheme): every signature is sign(key designated by the chain, specification layout of the chosen version); to_proto is '
                  'the exact field map, deserialize its inverse relation (lemma_wire_roundtrip).',
        'not_covered': ['block payload encoding (token_block_to_proto_block + prost) and base64'],
        'assumptions': CRYPTO_ASSUMPTIONS,
    },
    'C07': {
        'units': [{'template': 'chain.rs', 'rlimit': 30, 'items': _LEAF_VERIFY + [
            r'^crypto::generate_external_signature_payload', r'^crypto::generate_block_signature_payload',
            r'^crypto::verify_external_signature$', r'^crypto::verify_block_signature$',
            r'^format::SerializedBiscuit::(verify_inner|deserialize|append_serialized|append|last_block)$']}],
        'proved': 'the external payload binds version, payload and the previous signature; verify_block_signature checks it against the '
                  'previous signature it is given and verify_inner passes the actual predecessor of this token; the chain signature (v1) covers the '
                  'external signature bytes; deserialize refuses third-party blocks whose signature version is not 1 in safe mode.',
        'not_covered': ['trust of third-party facts by scope (see C03/C04 origin unit)'],
        'assumptions': CRYPTO_ASSUMPTIONS,
    },
    'C08': {
        'units': [{'template': 'chain.rs', 'rlimit': 30, 'items': _LEAF_SIGN + _LEAF_VERIFY + [
            r'^crypto::TokenNext::', r'^crypto::generate_seal_signature_payload_v0$',
            r'^format::SerializedBiscuit::(seal|append|append_serialized|verify_inner|last_block)$']}],
        'proved': 'seal keeps root key id, authority and blocks, replaces the proof by sign(next secret, seal payload of the last block) and the '
                  'result stays chain-valid; seal / append / append_serialized on a sealed container return AlreadySealed; verify_inner checks the '
                  'seal signature over (last block payload, next key, signature).',
        'not_covered': ['authorizer equality of sealed and unsealed tokens (engine, C05)'],
        'assumptions': CRYPTO_ASSUMPTIONS,
    },
    'C15': {
        'units': [{'template': 'chain.rs', 'rlimit': 30, 'items': [
            r'^crypto::generate_block_signature_payload_v1$', r'^crypto::generate_seal_signature_payload_v0$',
            r'^crypto::ed25519::PublicKey::verify_signature$', r'^crypto::p256::PublicKey::verify_signature$', r'^format::block_signature_version$',
            r'^format::SerializedBiscuit::(seal|append|append_serialized|deserialize|to_proto)$']}],
        'proved': 'append / append_serialized / seal keep every existing block (hence its signature = revocation identifier) in place and in '
                  'order; to_proto / deserialize map signatures bytewise; the v1 block payload and the seal payload cover the previous signature; '
                  'ed25519 verification is the strict (non-malleable) one; block_signature_version keeps layout v1 (which covers the previous signature) once any earlier version it is given is 1, and append / append_serialized hand it the versions of the authority block and of every block (v1_sticky: a block appended after any v1 block is v1; the iterator pipeline is read as the sequence of its items, rule A6). '
                  'secp256r1: the clause `an accepted signature is the canonical one of the pair (r, s) / (r, n - s)` is NOT provable on the current tree - known finding, see known_findings.txt.',
        'not_covered': ['uniqueness across independently minted tokens (probabilistic, fresh OsRng key)',
                        ],
        'assumptions': CRYPTO_ASSUMPTIONS,
    },
}

PROPS['C17'] = {
    'units': [{'template': 'chain.rs', 'rlimit': 30, 'items': [
        r'^crypto::(ed25519|p256)::(PublicKey|PrivateKey|KeyPair)::', r'^crypto::PublicKey::(from_bytes|from_proto|to_proto|to_bytes|algorithm|verify_signature)$',
        r'^crypto::PrivateKey::(from_bytes|to_bytes|public|algorithm)$', r'^crypto::KeyPair::(from_bytes|from|private|public|algorithm|sign)$',
        r'^crypto::Signature::']}],
    'proved': 'wrong-length private keys / key pairs are refused with InvalidKeySize before the conversion that would panic (p256: generic-array '
              'precondition; ed25519: try_into); ed25519 signatures of length != 64 are refused; the algorithm tag <-> variant table of '
              'from_bytes / from_proto / to_proto / algorithm; to_proto writes exactly (tag, canonical key bytes) and from_proto accepts only '
              'encodings that decode to the returned key; public() of a private key and of the key pair built from it agree.',
    'not_covered': ['decode(encode(k)) = k of the primitives, PEM/DER, hex: assumptions on the dependencies',
                    'FromStr / string-prefix parsing (str reasoning is outside Verus)', 'a signature verifies only under the matching key (cryptographic assumption)'],
    'assumptions': CRYPTO_ASSUMPTIONS,
}

_TOKEN_CONTRACT_TRUST = [
    'unit token: the container layer (crypto/mod.rs, format/mod.rs) enters as contracts only; each is proved in unit chain from the same contract text (//@include-contracts)',
    'SymbolTable::{from, insert, is_disjoint}, PublicKeys::is_disjoint, BlockBuilder::build, proto_block_to_token_block, Block::print_source: assumed contracts on the real signatures (HashSet / iterator / fmt code)',
    'Vec::len() < usize::MAX for the block vectors (requires clauses named len): a Vec of non-zero-sized elements cannot reach usize::MAX elements',
]
PROPS['C01']['units'].append({'template': 'token.rs', 'rlimit': 30, 'items': [
    r'^token::Biscuit::(from|from_with_symbols|unsafe_deprecated_deserialize|from_serialized_container)$', r'^token::unverified::UnverifiedBiscuit::verify$'],
    'quick_canaries': ['from-uses-legacy-mode']})
PROPS['C01']['proved'] += (' Token level: Biscuit::from / from_with_symbols return Ok only for a container that is chain-valid under the key the provider designates for its root key id, with third-party signatures in the current '
    '(non-legacy) scheme; unsafe_deprecated_deserialize is the only entry point that accepts the legacy scheme; UnverifiedBiscuit::verify returns a token whose container is chain-valid.')
PROPS['C01']['assumptions'] = PROPS['C01']['assumptions'] + ['unit token: the container layer enters as contracts proved in unit chain; SymbolTable / PublicKeys primitives assumed (see C12)']
PROPS['C02']['units'].append({'template': 'token.rs', 'rlimit': 30, 'items': [
    r'^token::Biscuit::(new_with_rng|new_with_key_pair|append_with_keypair|append_third_party_with_keypair|append|append_third_party|seal|to_vec|from_with_symbols)$',
    r'^token::unverified::UnverifiedBiscuit::(append_with_keypair|append_third_party_with_keypair|append|append_third_party|seal|to_vec|verify)$',
    r'^token::builder::biscuit::BiscuitBuilder::'], 'quick_canaries': ['authority-next-key-is-root', 'builder-keys-swapped', 'append-key-not-from-rng']})
PROPS['C02']['proved'] += (' Token level (unit token): BiscuitBuilder::{build, build_with_symbols, build_with_rng, build_with_key_pair} and Biscuit::new_with_rng / new_with_key_pair return tokens whose container is chain-valid under the '
    'public key of the root key pair they were given; append* / append_third_party* / seal on both token types keep chain validity of the tail (given a valid external signature) and put the designated next key in place.')
PROPS['C02']['assumptions'] = PROPS['C02']['assumptions'] + ['unit token: see C12 (SymbolTable / PublicKeys primitives, BlockBuilder::build, prost round trip)', 'the random generator is an oracle (rng_keypair): no entropy claim']
PROPS['C07']['units'].append({'template': 'token.rs', 'rlimit': 30, 'items': [
    r'^token::Biscuit::(append_third_party_with_keypair|third_party_request|block_external_key|external_public_keys)$',
    r'^token::unverified::UnverifiedBiscuit::(append_third_party_with_keypair|third_party_request|external_public_keys)$',
    r'^token::third_party::ThirdPartyRequest::', r'^format::SerializedBiscuit::extract_blocks$']})
PROPS['C07']['proved'] += (' Token level: Biscuit::append_third_party_with_keypair returns Ok only if the supplied key decodes to the stated external key and the '
    'external signature verifies over external_payload_v1(payload, signature of the current last block, 1); the appended block carries exactly that payload and key, '
    'and the token symbol / public-key tables are left untouched on the verified and on the unverified path; ThirdPartyRequest::from_container copies the last signature '
    'and refuses sealed tokens; create_block signs external_payload_v1(payload, previous signature, 1) with the given private key.')
PROPS['C07']['assumptions'] = CRYPTO_ASSUMPTIONS + _TOKEN_CONTRACT_TRUST
PROPS['C08']['units'].append({'template': 'token.rs', 'rlimit': 30, 'items': [
    r'^token::Biscuit::(seal|append_with_keypair|append_third_party_with_keypair|third_party_request)$',
    r'^token::unverified::UnverifiedBiscuit::(seal|append_with_keypair|append_third_party_with_keypair|third_party_request)$',
    r'^token::third_party::ThirdPartyRequest::from_container$']})
PROPS['C08']['proved'] += (' Token level: Biscuit::seal / UnverifiedBiscuit::seal keep authority, blocks, symbols and root key id and only replace the container proof; '
    'append, append_third_party, third_party_request and seal on a sealed token return an error.')
PROPS['C08']['assumptions'] = CRYPTO_ASSUMPTIONS + _TOKEN_CONTRACT_TRUST
PROPS['C15']['units'].append({'template': 'token.rs', 'rlimit': 30, 'items': [
    r'^token::Biscuit::(revocation_identifiers|seal|append_with_keypair|append_third_party_with_keypair|append|append_third_party|new_with_rng|new_with_key_pair)$', r'^token::builder::biscuit::BiscuitBuilder::',
    r'^token::unverified::UnverifiedBiscuit::(revocation_identifiers|seal|append_with_keypair|append_third_party_with_keypair|verify|append|append_third_party)$']})
PROPS['C15']['proved'] += (' Token level: revocation_identifiers() is exactly [authority signature] ++ block signatures, in order, on both token types; every append / seal / verify '
    'keeps the existing container blocks as a prefix (appended / frame clauses). Next keys: append_with_keypair / append_third_party_with_keypair (both token types) put the public key of the GIVEN key pair in the new block '
    'and keep its private key as the proof; append / append_third_party (both token types) obtain that key pair from the operating-system RNG (KeyPair::new_with_rng(Ed25519, OsRng), an oracle) and from nowhere else.')
PROPS['C15']['proved'] += ' New tokens: Biscuit::new_with_rng and BiscuitBuilder::{build, build_with_symbols, build_with_rng, build_with_key_pair} sign the authority block with the root key, put the key pair obtained from the given generator (the OS generator for build / build_with_symbols) - or the given next key pair - in the authority block and keep its private key as the proof; the root key is never used as a next key.'
PROPS['C15']['assumptions'] = CRYPTO_ASSUMPTIONS + _TOKEN_CONTRACT_TRUST

PROPS['C09'] = {
    'units': [{'template': 'token.rs', 'rlimit': 30, 'items': [
        r'^token::Biscuit::', r'^token::unverified::UnverifiedBiscuit::', r'^token::third_party::', r'^format::SerializedBiscuit::extract_blocks$',
        r'^datalog::symbol::SymbolTable::(get_symbol|print_symbol|print_symbol_default|new)$',
        r'^builder::Algorithm::']},
        {'template': 'chain.rs', 'rlimit': 30, 'items': [r'^format::SerializedBiscuit::(deserialize|from_slice|unsafe_from_slice|verify_inner|verify)$',
        r'^crypto::(ed25519|p256)::', r'^crypto::(PublicKey|PrivateKey|KeyPair)::(from_bytes|from_proto)$']}],
    'proved': 'absence of panics (index, slice range, unwrap/expect, integer overflow, cast) inside the listed functions for every input, including every block index: '
              'Biscuit / UnverifiedBiscuit accessors (block, block_symbols, block_external_key, block_count, print_block_source, block_version, context, revocation_identifiers, '
              'external_public_keys), seal, append*, append_third_party*, third_party_request, ThirdPartyRequest::{from_container, deserialize, create_block}, '
              'SerializedBiscuit::{deserialize, from_slice, verify_inner, extract_blocks} and the key decoders.',
    'not_covered': ['inside prost, nom, regex, fmt and the Datalog engine (termination, stack depth)', 'snapshots, policies, Datalog source parsing, PEM/DER',
                    'Biscuit::block_public_keys', 'collection-valued operator arms (rule A3), Authorizer::from_snapshot / snapshot, the query prologues'],
    'assumptions': CRYPTO_ASSUMPTIONS + _TOKEN_CONTRACT_TRUST,
    'level_text': 'Deductive proof of panic-freedom for an explicit list of functions (named in the evidence): Verus turns every index, slice, unwrap, arithmetic operation and cast '
                  'in the extracted text into a side condition and discharges it for all inputs. The property as a whole (every entry point of the library) is NOT decided; only the listed functions are.',
}
PROPS['C12'] = {
    'units': [{'template': 'token.rs', 'rlimit': 30, 'items': [
        r'^format::SerializedBiscuit::extract_blocks$', r'^datalog::symbol::SymbolTable::(new|extend)$', r'^token::public_keys::PublicKeys::(new|extend|insert|insert_fallible)$', r'^token::default_symbol_table$',
        r'^token::Biscuit::(new_with_key_pair|from_with_symbols|from_serialized_container|append_with_keypair|append_third_party_with_keypair|seal|block)$',
        r'^token::unverified::UnverifiedBiscuit::(from_with_symbols|unsafe_deprecated_deserialize|append_with_keypair|append_third_party_with_keypair|seal|verify|block)$']}],
    'proved': 'the table invariant inv(token): token.symbols / token.public_keys == the tables a verifier reconstructs from the container (authority block + every first-party block, in order, third-party blocks skipped), '
              'and blocks.len() == container.blocks.len(). SerializedBiscuit::extract_blocks computes exactly that reconstruction (loop invariants over the blocks and over each key list) and returns the decoded payload of every block; '
              'inv is established by new_with_key_pair, from_with_symbols, from_serialized_container, UnverifiedBiscuit::{from_with_symbols, unsafe_deprecated_deserialize} and preserved by append_with_keypair, '
              'append_third_party_with_keypair, seal and verify on both token types; a third-party append leaves the tables unchanged (unverified path only after fix 5c2d5c0). Biscuit::block and UnverifiedBiscuit::block return exactly the decoded block (proto_block_to_token_block of the stored payload and external key), so both token types print a block from the same tables (unverified path only after fix 7c6e353).',
    'not_covered': ['the internals of SymbolTable::{from, insert, is_disjoint} and PublicKeys::is_disjoint (HashSet / iterator code) and of BlockBuilder::build are assumed contracts, so "overlaps are refused" is decided only up to them (SymbolTable::extend and PublicKeys::extend themselves are proved: Ok only for disjoint tables, and then exactly the concatenation; PublicKeys::insert / insert_fallible are proved on their bodies through rewrite R10 `iter().position`: insert returns the index of the first equal key and appends exactly when the key is absent, insert_fallible refuses a key already present)',
                    'printing, authorizer equality of the in-memory and the reloaded token'],
    'assumptions': CRYPTO_ASSUMPTIONS + _TOKEN_CONTRACT_TRUST + ['token_block_to_proto_block writes exactly the block\'s own symbols and the encodings of its own public keys (axiom proto_of_tables); prost decode(encode(block)) = block',
                    'BlockBuilder::build returns a block whose own symbol table carries no public keys'],
    'level_text': 'Deductive proof of the table invariant on every token-level API path (verified and unverified), with the symbol-table primitives and the Datalog block builder entering as assumed contracts.',
}

_ORIGIN_TRUST = [
    'BTreeSet::{is_superset, extend}, the set of items of a Range / slice iterator (specs/origin_body.rs verif_sets), derived Default/Clone of Origin: assumed',
    'Origin::union (iterator adaptor code): assumed contract on the real signature',
]
_LOADB = {'template': 'loadb.rs', 'rlimit': 30, 'items': [r'^token::builder::authorizer::(load_and_translate_block|AuthorizerBuilder::build_inner)$', r'^token::authorizer::snapshot::Authorizer::from_snapshot$', r'^token::builder::authorizer::AuthorizerBuilder::from_snapshot$']}
_LOADB_PROVED = (' Loading a block into the authorizer (load_and_translate_block, for every block, index, key map and every outcome of the symbol-table conversion oracles): every fact of block i is stored under origin '
                 'exactly {i} and nothing else is added to the fact store; every rule of block i is stored as owned by block i with the trusted set of ITS OWN scopes over the default trust of the block '
                 '(the block scopes over {authority, authorizer}, current block i), and nothing else is added to the rule store; existing facts and rules are kept; the key -> block map is not modified; '
                 'facts, rules, scopes and checks of a third-party block (external key, i > 0) are read with the block\'s own symbol table, those of every other block with the token\'s. '
                 'Building the authorizer (AuthorizerBuilder::build_inner): the key -> block map registers block j (1-based) under key index k exactly when container block j-1 carries an external signature by the k-th distinct '
                 'external key of the token (first-occurrence order = index in the fresh key table), the token-level trusted set is `previous` evaluated at block_count, blocks is Some with one entry per container block plus the '
                 'authority (None without a token), every authorizer fact is stored under origin {authorizer} and every authorizer rule as owned by the authorizer with the trusted set of its own scopes over the authorizer scopes; '
                 'the result has no cached execution time, a zero iteration counter and the builder\'s limits and policies. '
                 'Restoring a snapshot (Authorizer::from_snapshot, untrusted bytes): blocks is Some only with at least one block (the decision procedure indexes the authority block); block j is registered in the key -> block map '
                 'exactly when it carries an external key (under some key index), and nothing else is; the token-level trusted set is `previous` at the number of blocks; the version is in the supported range; the limits, the iteration counter '
                 'and the execution time (Some iff non-zero) are the ones of the snapshot. AuthorizerBuilder::from_snapshot accepts only a snapshot with no blocks, no generated facts, zero iterations and zero execution time, in the supported version range, and restores its limits.')
_LOADB_ASSUME = ['unit loadb: FactSet::insert / RuleSet::insert add exactly the given (origin, fact) / (block, trusted set, rule) entry (FactSet::insert: proved in unit factset); conversions between symbol tables are functions of (object, source table) - interning in the target table is not modelled; Rule::validate_variables returns',
                 'unit loadb / build_inner: the statement `blocks = Some(token.blocks().enumerate().map(.. load_and_translate_block ..).collect()?)` is an oracle (rule A5): one decoded block per container block plus the authority, key map only read, '
                 'nothing stored under the authorizer origin; PublicKeys::insert returns the index of the first equal key and appends when absent (proved in unit token); HashMap entry().or_default().push() appends to the list under the key; Biscuit::block_count = 1 + container blocks (token invariant rep(), unit token)']
_FACTSET = {'template': 'factset.rs', 'rlimit': 30, 'items': [r'^datalog::FactSet::(insert|merge)$']}
_FACTSET_PROVED = (' The fact store (unit factset, the real HashMap<Origin, HashSet<Fact>> representation): FactSet::insert adds exactly the pair (origin, fact) - stored under exactly the given origin, every other entry kept, nothing else added; '
                   'FactSet::merge leaves exactly the union of both stores, origin by origin (a fact is never moved to, merged into or dropped in favour of another origin).')
_FACTSET_ASSUME = ['unit factset: std calls vstd does not specify are stubs with assumed contracts - HashMap::get_mut (borrow of the stored value), HashMap::entry(k).or_default() (borrow of the value under k, empty when absent), by-value iteration of a HashMap (every entry), HashSet::extend (union); the derived Hash / Eq of Origin and Fact obey the key model of vstd']
PROPS['C03'] = {
    'units': [{'template': 'origin.rs', 'rlimit': 30, 'items': [r'^datalog::origin::']}, _LOADB, _FACTSET,
              {'template': 'engine.rs', 'rlimit': 30, 'items': [r'^datalog::World::run_with_limits$']}],
    'proved': 'TrustedOrigins::from_scopes returns, for all scope lists, block indices and key maps, exactly the set trusted_spec of the Biscuit scoping rules '
              '(membership predicate); TrustedOrigins::default = {authority, authorizer}; contains = subset test. Lemmas over the specification: L1 default trust of block i is exactly '
              '{0, i, authorizer}; L2 (attenuation) a later block j is never in the trusted set of anything loaded from block i <= j or from the authorizer unless a scope of the rule or of '
              'its block names a key under which j is registered; L3 previous = {0..=i} + authorizer; L4 a key scope adds exactly the blocks registered under it; L5 visibility is monotone '
              'in the scope and antitone in the fact origin.' + _LOADB_PROVED + ' The fixpoint loop (World::run_with_limits, unit engine, Rule::apply as an oracle): on Ok the fact set is closed under one more application of every stored rule under '
              'its own trusted set, no derived fact is dropped and facts are never removed.' + _FACTSET_PROVED,
    'not_covered': ['the other half of C03: derived-fact origin = union of matched origins + rule block (Rule::apply / CombineIt::next) and the filtering of facts by contains() before matching '
                    '(FactSet::iterator) live in Box<dyn Iterator> + closure code neither verifier ingests; the end-to-end implication "extended token authorized => original authorized" is NOT proved',
                    'construction of public_key_to_block_id (HashMap::entry code in AuthorizerBuilder)'],
    'assumptions': _ORIGIN_TRUST + _LOADB_ASSUME + _FACTSET_ASSUME,
    'level_text': 'Deductive proof of the trust-scope half of the property: every trusted-origin set the engine is handed equals the specification set, for all inputs, plus machine-checked lemmas stating '
                  'the attenuation consequences over that specification. The provenance half (engine) is outside this technique here and is stated as not covered.',
}
# the clock-read accounting of authorize_inner belongs to C10 (time budget), not to C04 / C09
_CLOCK = [r'\.clock(@entry)?$', r'reads (\+ 1 )?== evals']
PROPS['C04'] = {
    'units': [{'template': 'origin.rs', 'rlimit': 30, 'items': [r'^datalog::origin::']},
              {'template': 'authz.rs', 'rlimit': 60, 'items': [r'^token::authorizer::Authorizer::(authorize_inner|query_inner|query_all_inner)$'], 'exclude_obligations': _CLOCK},
              {'template': 'engine.rs', 'rlimit': 30, 'items': [r'^datalog::(Rule::(find_match|check_match_all)|World::(query_match|query_match_all|run_with_limits))$']}, _LOADB, _FACTSET],
    'proved': 'scope -> trusted origins: from_scopes equals trusted_spec for all inputs (authority, own block and authorizer by default; changed only by `trusting authority`, `previous` or a public key), '
              'contains is the subset test deciding fact visibility. Decision composition (Authorizer::authorize_inner, for EVERY outcome of the engine oracles): every query is evaluated under exactly the specification '
              'trusted set of its position (authorizer checks and policies: authorizer scopes, origin authorizer; authority checks: block 0; checks of block b: block b); on Ok(i) every authorizer, authority and block check '
              'passes by its per-kind rule (check if: one matching alternative; check all: one alternative matching with no counter-example; reject if: NO alternative matches), i is the first policy with a matching '
              'alternative and it is an allow policy; on NoMatchingPolicy / Unauthorized the reported list contains, with its origin (authorizer or block index) and its index, every check that fails by the per-kind rule (for indices that fit the u32 fields), and Unauthorized with an allow policy is returned only if some check fails; NoMatchingPolicy is returned only when no policy matches; Unauthorized{Allow(i) | Deny(i)} only when i is the first matching policy of that kind; nothing but the symbol '
              'table is modified. Queries: query_inner evaluates the rule from the authorizer origin under trusted_spec(rule scopes, {authority, authorizer}) - never the authorizer-level scopes - and query_all_inner under the token-level set '
              '(all blocks) when the rule has no scope and under its own scopes otherwise; both leave everything but the symbol table unchanged. Engine entry points (unit engine, relative to oracles for the join iterator, Rule::apply and expression evaluation): World::query_match / query_match_all hand their arguments unchanged to '
              'Rule::find_match / check_match_all; find_match is Ok(true) iff the rule application yields a first item that is a fact, Ok(false) iff it yields nothing, and the expression error otherwise; check_match_all is Ok(true) iff the body '
              'has AT LEAST ONE match and every match satisfies every expression (evaluated in order, each match with a fresh temporary symbol table), Ok(false) at the first false expression, InvalidType for a non-boolean one. '
              'The fixpoint loop (World::run_with_limits, the real nested loops over the rule store; Rule::apply is an oracle): on Ok the fact set is CLOSED under one more round - every item that the application of any rule of the store, '
              'under its own trusted set and from its own block, yields over the final fact set is a fact that is already in the set, and none is an expression error (a round that adds nothing is detected by the fact count, '
              'cardinality lemma); facts are never removed; the rule store and the extern functions are untouched.' + _LOADB_PROVED + _FACTSET_PROVED,
    'not_covered': ['the join (CombineIt) and Rule::apply (closures over it): oracles; how the oracles m_one / m_all of unit authz relate to the oracles of unit engine is by name only (both describe World::query_match*)', 'the order of the failed checks in the error value and the exact correspondence of each entry (completeness of the list and `a refusal with an allow policy means some check fails` are proved)',
                    'builder -> Datalog conversion and symbol interning (oracles: the Datalog object is a function of the builder object)', 'query / query_all: the prologue (run, remaining budget) and the conversion of derived facts to the caller type (iterator chains: oracle, rule A5)'],
    'assumptions': _ORIGIN_TRUST + _LOADB_ASSUME + _FACTSET_ASSUME + ['World::query_match / query_match_all return what the oracles m_one / m_all say for (query, origin, trusted set); Check::convert / Rule::convert / scope conversion are functions of their argument',
                                    'time (Instant) is an uninterpreted input: a Timeout error may be returned at any check', 'Authorizer.blocks, when present, holds at least the authority block (requires blocks_nonempty)'],
    'level_text': 'Deductive proof of the scope computation, of the decision composition and query scoping over all oracle outcomes, of block loading, and of the engine entry points and fixpoint loop relative to oracles for the join iterator, Rule::apply and expression evaluation; the join itself is not verified.',
}

PROPS['C07']['units'].append(_LOADB)
PROPS['C07']['proved'] += (' Authorizer level (load_and_translate_block): the facts, rules, scopes and checks of a third-party block are read with the block\'s own symbol table and stored under origin {i} only, '
    'so they are visible only to scopes that trust block i; loading a block never modifies the key -> block map.')
PROPS['C07']['assumptions'] = PROPS['C07']['assumptions'] + _LOADB_ASSUME
PROPS['C12']['units'].append({'template': 'convops.rs', 'rlimit': 30, 'items': [r'^format::convert::v2::(token_op_to_proto_op|proto_op_to_token_op)$']})
PROPS['C12']['proved'] += (' Operators on the wire (format/convert.rs): token_op_to_proto_op writes every unary / binary operator as the protobuf kind of the same name, with the extern-function name exactly for Ffi; '
    'proto_op_to_token_op returns the operator of the same name for exactly the (kind, ffi name) pairs of that table and a deserialization error for every other pair, an unknown kind or an empty message; the two tables are '
    'inverse of each other (lemma_unary_tables / lemma_binary_tables), so an operator means the same after a round trip.')
PROPS['C12']['units'].append({'template': 'convterm.rs', 'rlimit': 30, 'items': [r'^format::convert::v2::proto_id_to_token_term$']})
PROPS['C12']['proved'] += (' Terms on the wire: proto_id_to_token_term maps every scalar to the term of the same kind and value, refuses an empty message, and accepts a set only when every element is present, is neither a variable nor a set, '
    'and all elements have the same kind.')
PROPS['C12']['not_covered'] = PROPS['C12']['not_covered'] + ['predicate / rule / scope conversion, the term writer, and the recursion into closure bodies and arrays (oracles in units convops / convterm)']
PROPS['C12']['assumptions'] = PROPS['C12']['assumptions'] + ['prost: Kind::from_i32(k as i32) == Some(k) for every declared variant']
PROPS['C16'] = {
    'units': [{'template': 'schema.rs', 'rlimit': 30, 'items': [r'^datalog::']},
              {'template': 'convert.rs', 'rlimit': 30, 'items': [r'^format::convert::proto_block_to_token_block$']},
              {'template': 'chain.rs', 'rlimit': 30, 'items': [r'^format::block_signature_version$', r'^format::SerializedBiscuit::(new|append|append_serialized)$']}],
    'proved': 'SchemaVersion::version() is the lowest of 3 / 4 / 6 that includes every detected feature and check_compatibility(v) is Ok exactly for v >= that version (v >= 3); get_schema_version '
              'computes exactly the feature tables of the Biscuit specification over all facts, rules, checks and scopes of the block (3.1: scopes, check all, bitwise operators, !=; 3.3: reject if, null / array / map '
              'terms, closures, typeof, extern calls, heterogeneous (in)equality, lazy && ||, all / any, get); proto_block_to_token_block returns Ok only for 3 <= version <= 6, version >= 5 for third-party blocks, '
              'check kinds only from 3.1 and reject if only from 3.3, and a declared version at least the detected one; block_signature_version returns 1 for third-party blocks, 3.3 content and non-ed25519 keys, '
              'and otherwise the maximum of the previous signature versions; SerializedBiscuit::append / append_serialized hand it the versions of the authority block and of every existing block (the iterator pipeline '
              'is read as the sequence of its items, rule A6), so a block appended after any block of layout v1 has layout v1 (v1_sticky: never switches back).',
    'not_covered': ['ThirdPartyRequest::create_block version >= 3.2 (generic std::cmp::max has only a weak assumed contract)',
                    'the term-level converters of format/convert.rs mod v2 (assumed total)'],
    'assumptions': ['derived comparison traits of Term / MapKey are total orders; BTreeSet<Term>::contains(&Null) is membership', 'mod v2 converters of format/convert.rs: assumed fallible and total; '
                    'proto_check_to_token_check maps the kind tag 0/1/2 to One/All/Reject', 'Iterator::max / last return the maximum / last of the yielded items; std::iter::{empty, once}, slice iter(), chain, map(field) yield the sequences rule A6 computes'] + CRYPTO_ASSUMPTIONS[:1],
}
WITNESS_C16 = None

PROPS['C10'] = {
    'units': [{'template': 'limits.rs', 'rlimit': 30, 'items': [r'^datalog::World::run_with_limits$', r'^token::authorizer::Authorizer::']},
              # only the clock-read accounting of the decision procedure (everything else of that function belongs to C04)
              {'template': 'authz.rs', 'rlimit': 60, 'items': [r'^token::authorizer::Authorizer::authorize_inner$'],
               'exclude_obligations': [r'^(?!.*(\.clock(@entry)?$|reads (\+ 1 )?== evals)).*$'], 'quick_canaries': ['clock-read-after-break']}],
    'proved': 'Time checks of the decision procedure (Authorizer::authorize_inner, ghost counters): every evaluation of a check alternative or of a policy alternative is followed by a clock read and a comparison with the time limit before the result is used to leave the loop - the number of clock reads equals the number of evaluations at every loop head, at every break and at the end, and evaluations and clock reads strictly alternate (evaluation first). '
              'World::run_with_limits: on Ok the iteration counter grew by at most limits.max_iterations and the fact count is within limits.max_facts whenever at least one round derived something; '
              'every exit is Ok, an expression error or one of the three run-limit errors; the loop terminates within max_iterations + 1 rounds (decreases clause) whatever the rule engine does '
              '(its round is abstracted: any facts, any error, rule A1); the counter accumulates across calls (iterations += rounds). Authorizer::run is cached after success; authorize computes '
              'remaining = configured - consumed without underflow, returns Timeout when the cached execution time already reaches max_time, and TooManyIterations when the counter exceeds the budget.',
    'not_covered': ['wall-clock promptness inside one expensive iteration (time is an uninterpreted input: what is decided is WHERE the clock is read, not how long a step takes)', 'query_with_limits / query_all_with_limits themselves (assumed to return); query / query_all are under contract (remaining budget without underflow, Timeout when the cached time reaches the budget)',
                     'what one round of rule application computes (C05)'],
    'assumptions': ['FactSet::len is the number of facts and merge never removes one; Instant / Duration modelled as nanosecond counters whose + and -= panic on overflow / underflow (specs/limits_body.rs)',
                    'Authorizer::authorize_inner leaves the counters alone (assumed contract)', 'requires sane(): iterations + max_iterations < u64::MAX before the first run and max_time below half the Duration range'],
}
PROPS['C09']['units'].append({'template': 'limits.rs', 'rlimit': 30, 'items': [r'^datalog::World::run_with_limits$', r'^token::authorizer::Authorizer::'],
                              'exclude_obligations': [r'ok_facts_initial', r'facts_budget']})   # budget semantics belong to C10, not to panic-freedom

# panic-freedom of expression evaluation / printing, of loading a token into an authorizer and of the decision procedure:
# only the side conditions (index, pop, unwrap, overflow, cast, callee preconditions that guard a panic) count for C09;
# the functional clauses of these units belong to C03 / C04 / C06 / C07
_NOT_PANIC = [r'::ensures\.', r'::loop\d+\.', r'::closure\d+\.', r'no_shadow', r'reads (\+ 1 )?== evals']
PROPS['C09']['units'].append({'template': 'expr.rs', 'rlimit': 30, 'items': [r'^datalog::expression::', r'^token::builder::expression::'], 'exclude_obligations': _NOT_PANIC, 'quick_canaries': ['display-unwrap']})
PROPS['C09']['units'].append({'template': 'convops.rs', 'rlimit': 30, 'items': [r'^format::convert::v2::proto_op_to_token_op$'], 'exclude_obligations': _NOT_PANIC, 'quick_canaries': []})
PROPS['C09']['units'].append({'template': 'convterm.rs', 'rlimit': 30, 'items': [r'^format::convert::v2::proto_id_to_token_term$'], 'exclude_obligations': _NOT_PANIC, 'quick_canaries': []})
PROPS['C09']['units'].append({'template': 'srcconv.rs', 'rlimit': 30, 'items': [r'^token::builder::scope::', r'^token::builder::term::']})
PROPS['C09']['units'].append({'template': 'loadb.rs', 'rlimit': 30, 'items': _LOADB['items'],
                              # the two clauses that guard the indexing of blocks[0] in authorize_inner DO count for panic-freedom
                              'exclude_obligations': [r'::ensures\.(?!blocks)', r'::loop\d+\.', r'::closure\d+\.'], 'quick_canaries': ['snapshot-empty-blocks-some']})
PROPS['C09']['units'].append({'template': 'authz.rs', 'rlimit': 60, 'items': [r'^token::authorizer::Authorizer::(authorize_inner|query_inner|query_all_inner)$'], 'exclude_obligations': _NOT_PANIC, 'quick_canaries': []})
PROPS['C09']['proved'] += (' Also: Unary / Binary::evaluate (scalar arms), Binary::evaluate_with_closure, Expression::evaluate, Expression::print and the builder-level Display of an expression (Authorizer::dump_code) for every operation sequence (no pop / remove / index / division side condition can fail); '
                           'load_and_translate_block and AuthorizerBuilder::build_inner (index arithmetic, casts); Authorizer::authorize_inner, query_inner, query_all_inner (block indexing; needs blocks to hold the authority block, '
                           'which build_inner::ensures.blocks establishes); World::run_with_limits and Authorizer::run / authorize / authorize_with_limits / query / query_all (limit arithmetic).')

PROPS['C19'] = {
    'units': [{'template': 'capi.rs', 'rlimit': 30, 'items': [r'^biscuit-capi::lib::']}],
    'proved': 'for key_pair_new, key_pair_public, key_pair_serialize, key_pair_deserialize, public_key_deserialize, biscuit_serialized_size, biscuit_serialize, biscuit_sealed_size, '
              'biscuit_serialize_sealed, biscuit_block_count, biscuit_block_context and the builder / token / authorizer entry points (biscuit_builder_*, block_builder_*, authorizer_builder_*, biscuit_from, biscuit_append_block, biscuit_authorizer, '
              'authorizer_authorize, authorizer_print, biscuit_print, biscuit_print_block_source - 37 extern functions in all): every copy_from_slice into a caller buffer has equal source and destination lengths, the number of bytes written is the number announced by the '
              'matching size query (sealed: the size of the sealed token), seeds of length != 32 are refused, a null handle returns through the error channel without being dereferenced, and no unwrap / index / '
              'arithmetic side condition can fail. Builder handles (BiscuitBuilder, BlockBuilder, AuthorizerBuilder): the handle holds its Rust builder after EVERY call of set_context, set_root_key_id, add_fact, add_rule, add_check, add_policy - '
              'including calls that refuse their argument - so the unwrap / expect of the next call cannot fail; biscuit_builder, create_block and authorizer_builder return filled handles; authorizer_builder_build[_unauthenticated] return NULL for a NULL builder.',
    'not_covered': ['"returns the same result as the Rust operation" for authorization outcomes and error details (needs the engine)', 'what the C strings contain (CStr::from_ptr / to_str are assumed total on valid NUL-terminated buffers)', 'string_free and the *_free functions (ownership transfer)',
                    'validity of the caller-supplied pointers themselves (the property assumes valid handles and buffers of the reported size; rewrite R9)'],
    'assumptions': ['Rust API contracts in specs/capi.rs: PrivateKey::to_bytes is 32 bytes, PublicKey::to_bytes is 32 (ed25519) / 33 (secp256r1) bytes, Biscuit::to_vec().len() == serialized_size() for the same token '
                    '(each proved or assumed in unit chain); seal() returns a token whose size is unrelated to the unsealed one', 'update_last_error returns', 'rewrite R9: from_raw_parts[_mut](p, n) is a slice of length n'],
    'technique': 'contract-based deductive verification (Verus on the mechanically extracted extern "C" functions, raw-pointer slices through rewrite R9, Z3)',
}

PROPS['C06'] = {
    'units': [{'template': 'expr.rs', 'rlimit': 30, 'items': [r'^datalog::expression::']}],
    'proved': 'Binary::evaluate, for all i64 operands: add / sub / mul return the mathematical result or Err(Overflow) (never wrap-around), division by zero is Err(DivideByZero), MIN / -1 is an error, '
              'comparisons and (strict and heterogeneous) equality on integers equal their definitions, && and || on booleans; type strictness: an Ok result implies the operator / operand-kind combination is in the '
              'table of the Biscuit specification, every combination outside it returns Err(InvalidType), and heterogeneous (in)equality on scalar operands of different kinds is Ok(false) / Ok(true). '
              'Unary::evaluate: negate, parens, and the kind table. Expression::evaluate (the stack machine): no index / pop / remove / unwrap side condition can fail for any operation sequence and any bindings, '
              'an empty program is Err(InvalidStack). Binary::evaluate_with_closure, for all operands, closure bodies and bindings, relative to an oracle for the recursive evaluation of the closure body '
              '(rule A4): `||` / `&&` return without evaluating the right side when the left side decides and otherwise return exactly the evaluation of the right side; all / any evaluate the body once per element, in iteration order, '
              'with exactly the closure parameter bound to the element on top of the outer bindings, stop at the first deciding element, turn a non-boolean body into InvalidType and propagate the body\'s error; any other operator / operand / parameter-count '
              'combination is InvalidType; the bindings are restored on every exit. Expression::evaluate establishes the no-shadowing precondition of that function (removing the shadowing test fails the call).',
    'not_covered': ['what the arms on strings, byte arrays, sets, arrays, maps and extern functions return, and their panic-freedom (rule A3: abstracted)',
                    'the result of Expression::evaluate as a function of the program (the stack machine is proved panic-free, not functionally specified; the closure contract is relative to an oracle for it)', 'TemporarySymbolTable'],
    'assumptions': ['derived Clone / comparison traits of Term; HashMap<u32, Term> through vstd; the shadowing test expression computes `some closure parameter is already bound` (per-item rewrite)',
                    'rule A4: the recursive evaluation of a closure body is a function of (ops, bindings, temporary-symbol-table state, extern functions); BTreeSet::iter / BTreeMap::iter enumerate a fixed sequence per collection; `Term::Array(vec![key, value])` is an uninterpreted pair term',
                    'R21: verif_slice1 classifies a slice as empty / one element / more (its body is the slice-pattern match)'],
    'level_text': 'Deductive proof for all operands of the integer / boolean / null / kind-table part of the evaluator and of the panic-freedom of the stack machine; the collection-valued arms are abstracted and the closure operators are proved relative to an oracle for the recursive evaluation, so the property is decided only for the part named in the evidence.',
}

# obligation pattern -> concrete witness search on the real crate (replay/src/main.rs)
# the non-malleability clause of p256 verification belongs to C15 only
for _p in PROPS:
    if _p != 'C15':
        for _u in PROPS[_p]['units']:
            if _u['template'] == 'chain.rs':
                _u.setdefault('exclude_obligations', []).append(r'p256::PublicKey::verify_signature::ensures\.canonical')

# properties whose statement is (also) about panics / aborts: for the others a failing overflow / index / unwrap side
# condition is reported as UNDECIDED, not as a violation of the property
PANIC_PROPS = {'C06', 'C09', 'C10', 'C17', 'C19'}

WITNESS = {
    r'Authorizer::authorize_inner::(loop\d+\.(sound|flag|all_reject|none|done)|ensures\.checks)': 'tools/replay.sh reject_if_alternatives',
    r'token::(unverified::UnverifiedBiscuit|Biscuit)::block::call-pre': 'tools/replay.sh block_index',
    r'UnverifiedBiscuit::append_third_party_with_keypair::call-pre.*unwrap': 'tools/replay.sh unverified_third_party_unwrap',
    r'UnverifiedBiscuit::append_third_party_with_keypair::ensures\.tables': 'tools/replay.sh unverified_third_party_tables',
    r'datalog::World::run_with_limits::loop0\.index': 'tools/replay.sh iterations_zero_budget',
    r'datalog::World::run_with_limits::loop0\.ok_facts_initial': 'tools/replay.sh facts_over_budget_at_start',
    r'Authorizer::authorize::arith': 'tools/replay.sh snapshot_iteration_underflow',
    r'World::run_with_limits::arith\[self.iterations': 'tools/replay.sh snapshot_iteration_overflow',
    r'UnverifiedBiscuit::block::ensures\.decoded': 'tools/replay.sh unverified_third_party_print',
    r'token::builder::term::SystemTime::TryFrom::try_from::': 'tools/replay.sh query_date_overflow',
    r'token::builder::scope::Scope::From::from::': 'tools/replay.sh datalog_source_short_key',
    r'token::builder::expression::Expression::Display::fmt::': 'tools/replay.sh dump_malformed_expression',
    r'Expression::evaluate::call-pre\(datalog::expression::Binary::evaluate_with_closure::requires.no_shadow': 'tools/replay.sh closure_shadowing',
    r'biscuit-capi::lib::(BiscuitBuilder|BlockBuilder)::add_\w+::ensures\.handle': 'tools/replay.sh capi_builder_after_error',
    r'biscuit-capi::lib::AuthorizerBuilder::add_\w+::ensures\.handle': 'tools/replay.sh capi_authorizer_builder_after_error',
    r'biscuit-capi::lib::authorizer_builder_build(_unauthenticated)?::': 'tools/replay.sh capi_authorizer_builder_build_null',
    r'biscuit-capi::lib::public_key_serialize::call-pre': 'tools/replay.sh capi_public_key_serialize_secp256r1',
    r'biscuit-capi::lib::biscuit_(serialize_sealed|sealed_size)::': 'tools/replay.sh capi_serialize_sealed',
    r'datalog::contains_v3_3_(term|op)::': 'tools/replay.sh schema_version_features',
    r'datalog::SchemaVersion::check_compatibility::': 'tools/replay.sh underdeclared_block_accepted',
    r'crypto::p256::PublicKey::verify_signature::ensures\.canonical': 'tools/replay.sh p256_signature_twin',
}

NOT_APPLICABLE = {
    'C05': 'the join/fixpoint engine is Box<dyn Iterator> + move closures over HashMap<Origin, HashSet<Fact>>: Verus cannot type the iterator objects, so no contract can be attached to the join (CombineIt) or to Rule::apply; what surrounds them - the fixpoint loop, find_match, check_match_all - is under contract for C03 / C04 relative to oracles for them, which decides nothing about derivation itself (DESIGN.md 6)',
    'C11': 'quantifies over hash iteration orders of the closure/iterator engine code that the verifier does not ingest (DESIGN.md 6)',
    'C13': 'snapshot()/from_snapshot() are chains of iter().map(closure).collect::<Result<..>>() over prost messages with symbol re-interning: outside the Verus subset (DESIGN.md 6/C13)',
    'C14': 'printing is fmt::Display/format! (macro-generated), parsing is nom combinators (closures returning closures): there is no function on either side to which a contract can be attached (DESIGN.md 6)',
    'C18': 'the macro path is ToTokens implementations emitting token streams inside a proc-macro crate: code behind macros, executed by the compiler; no contract can state what Rust expression a token stream denotes (DESIGN.md 6)',
    'C20': 'substitution/validation are drain().map(closure).collect() over HashMap<String,_>/BTree collections: structural induction over code the verifier does not accept (DESIGN.md 6)',
}
