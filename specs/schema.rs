// =======================================================================================
// Unit `schema` — Datalog feature detection and version compatibility (C16)
//   datalog/mod.rs: SchemaVersion, get_schema_version, contains_v3_*;
// =======================================================================================
#![feature(allocator_api)]
#![allow(unused)]
use vstd::prelude::*;
verus! {
//@include std_prelude.rs
//@include error_mod.rs
//@include schema_body.rs
} // verus!
fn main() {}
