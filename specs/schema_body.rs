pub mod token {
    use vstd::prelude::*;
    //@extract biscuit-auth/src/token/mod.rs :: enum Scope
    //@end
    //@extract biscuit-auth/src/token/mod.rs :: const MIN_SCHEMA_VERSION
    //@end
    //@extract biscuit-auth/src/token/mod.rs :: const MAX_SCHEMA_VERSION
    //@end
    //@extract biscuit-auth/src/token/mod.rs :: const DATALOG_3_1
    //@end
    //@extract biscuit-auth/src/token/mod.rs :: const DATALOG_3_2
    //@end
    //@extract biscuit-auth/src/token/mod.rs :: const DATALOG_3_3
    //@end
}
pub mod builder {
    use vstd::prelude::*;
    //@extract biscuit-auth/src/token/builder/check.rs :: enum CheckKind
    //@end
    // ASSUMED: derived PartialEq of this field-less enum is structural
    impl vstd::std_specs::cmp::PartialEqSpecImpl for CheckKind {
        open spec fn obeys_eq_spec() -> bool { true }
        open spec fn eq_spec(&self, other: &Self) -> bool { *self == *other }
    }
    impl PartialEq for CheckKind {
        #[verifier::external_body]
        fn eq(&self, other: &Self) -> bool { unimplemented!() }
    }
}
pub mod datalog {
    use vstd::prelude::*;
    use crate::verif_std::*;
    use crate::builder::CheckKind;
    use crate::token::{Scope, DATALOG_3_1, DATALOG_3_3, MIN_SCHEMA_VERSION};
    use crate::error;
    use std::collections::{BTreeMap, BTreeSet};
    use crate::vspec::*;
    pub type SymbolIndex = u64;

    //@extract biscuit-auth/src/datalog/mod.rs :: enum Term
    //@end
    //@extract biscuit-auth/src/datalog/mod.rs :: enum MapKey
    //@end
    //@extract biscuit-auth/src/datalog/mod.rs :: struct Predicate
    //@end
    //@extract biscuit-auth/src/datalog/mod.rs :: struct Fact
    //@end
    //@extract biscuit-auth/src/datalog/mod.rs :: struct Rule
    //@end
    //@extract biscuit-auth/src/datalog/mod.rs :: struct Check
    //@end
    //@extract biscuit-auth/src/datalog/expression.rs :: struct Expression
    //@end
    //@extract biscuit-auth/src/datalog/expression.rs :: enum Op
    //@end
    //@extract biscuit-auth/src/datalog/expression.rs :: enum Unary
    //@end
    //@extract biscuit-auth/src/datalog/expression.rs :: enum Binary
    //@end
    //@extract biscuit-auth/src/datalog/mod.rs :: struct SchemaVersion
    //@end

    // ASSUMED: the derived comparison traits of Term / MapKey (needed by BTreeSet<Term>) are total orders
    impl PartialEq for Term { #[verifier::external_body] fn eq(&self, o: &Self) -> bool { unimplemented!() } }
    impl Eq for Term {}
    impl PartialOrd for Term { #[verifier::external_body] fn partial_cmp(&self, o: &Self) -> Option<core::cmp::Ordering> { unimplemented!() } }
    impl Ord for Term { #[verifier::external_body] fn cmp(&self, o: &Self) -> core::cmp::Ordering { unimplemented!() } }
    impl PartialEq for MapKey { #[verifier::external_body] fn eq(&self, o: &Self) -> bool { unimplemented!() } }
    impl Eq for MapKey {}
    impl PartialOrd for MapKey { #[verifier::external_body] fn partial_cmp(&self, o: &Self) -> Option<core::cmp::Ordering> { unimplemented!() } }
    impl Ord for MapKey { #[verifier::external_body] fn cmp(&self, o: &Self) -> core::cmp::Ordering { unimplemented!() } }
    // `s.contains(&Term::Null)` on a BTreeSet<Term>: membership in the abstract set (ASSUMED for this key type)
    pub uninterp spec fn set_has_null(s: BTreeSet<Term>) -> bool;
    #[verifier::external_body]
    pub fn verif_set_contains_null(s: &BTreeSet<Term>) -> (r: bool) ensures r == set_has_null(*s) { s.contains(&Term::Null) }

    //@extract biscuit-auth/src/datalog/mod.rs :: fn get_schema_version
    //@ rewrites R10
    //@ ensures scopes: r.contains_scopes == block_has_scopes(rules@, checks@, scopes@)
    //@ ensures check_all: r.contains_check_all == (exists|i: int| 0 <= i < checks@.len() && (#[trigger] checks@[i]).kind == CheckKind::All)
    //@ ensures v3_1: r.contains_v3_1 == block_v31(rules@, checks@)
    //@ ensures v3_3: r.contains_v3_3 == block_v33(facts@, rules@, checks@)
    //@ closure 0 returns bool
    //@ closure 0 ensures c: verif_r == (r.scopes@.len() > 0)
    //@ closure 1 returns bool
    //@ closure 1 ensures c: verif_r == check_has_scopes(*c)
    //@ closure 2 returns bool
    //@ closure 2 ensures c: verif_r == (q.scopes@.len() > 0)
    //@ closure 3 returns bool
    //@ closure 3 ensures c: verif_r == exprs_v31(rule.expressions@)
    //@ closure 4 returns bool
    //@ closure 4 ensures c: verif_r == check_v31(*check)
    //@ closure 5 returns bool
    //@ closure 5 ensures c: verif_r == exprs_v31(query.expressions@)
    //@ closure 6 returns bool
    //@ closure 6 ensures c: verif_r == rule_v33(*rule)
    //@ closure 7 returns bool
    //@ closure 7 ensures c: verif_r == check_v33(*check)
    //@ closure 8 returns bool
    //@ closure 8 ensures c: verif_r == query_v33(*query)
    //@ closure 9 returns bool
    //@ closure 9 ensures c: verif_r == pred_v33(fact.predicate)
    //@ loop 0 ghost it
    //@ loop 0 invariant all: contains_check_all == (exists|i: int| 0 <= i < it.index@ && (#[trigger] checks@[i]).kind == CheckKind::All)
    //@ loop 0 invariant reject: contains_v3_3 == (exists|i: int| 0 <= i < it.index@ && (#[trigger] checks@[i]).kind == CheckKind::Reject)
    //@end

    //@extract biscuit-auth/src/datalog/mod.rs :: fn contains_v3_1_op
    //@ rewrites R10
    //@ ensures table: r == exprs_v31(expressions@)
    //@ closure 0 returns bool
    //@ closure 0 ensures c: verif_r == expr_v31(*expression)
    //@ closure 1 returns bool
    //@ closure 1 ensures c: verif_r == op_v31(*op)
    //@end
    //@extract biscuit-auth/src/datalog/mod.rs :: fn contains_v3_3_op
    //@ rewrites R10
    //@ ensures table: r == exprs_v33(expressions@)
    //@ closure 0 returns bool
    //@ closure 0 ensures c: verif_r == expr_v33(*expression)
    //@ closure 1 returns bool
    //@ closure 1 ensures c: verif_r == op_v33(*op)
    //@end
    //@extract biscuit-auth/src/datalog/mod.rs :: fn contains_v3_3_predicate
    //@ rewrites R10
    //@ ensures table: r == pred_v33(*predicate)
    //@end
    //@extract biscuit-auth/src/datalog/mod.rs :: fn contains_v3_3_term
    //@ sub s\.contains\(&Term::Null\) => verif_set_contains_null(s)
    //@ ensures table: r == needs_3_3(*term)
    //@end

    impl SchemaVersion {
        //@extract biscuit-auth/src/datalog/mod.rs :: impl SchemaVersion :: fn version
        //@ ensures table: r == version_spec(*self)
        //@end
        //@extract biscuit-auth/src/datalog/mod.rs :: impl SchemaVersion :: fn check_compatibility
        //@ ensures minimal: version >= 3 ==> (r is Ok <==> version >= version_spec(*self))
        //@end
    }
}
pub mod vspec {
    use vstd::prelude::*;
    use crate::datalog::*;
    use crate::builder::CheckKind;
    use crate::token::Scope;
    // the lowest Datalog version that includes every detected feature (3.0 = 3, 3.1 = 4, 3.3 = 6)
    pub open spec fn version_spec(s: SchemaVersion) -> u32 {
        if s.contains_v3_3 { 6u32 } else if s.contains_scopes || s.contains_v3_1 || s.contains_check_all { 4u32 } else { 3u32 }
    }
    // ---- feature tables, from the Biscuit specification (Datalog 3.1 / 3.3 additions) ----
    // 3.3 terms: null, arrays, maps (sets can only hold scalars; a set holding null needs 3.3)
    pub open spec fn needs_3_3(t: Term) -> bool {
        match t { Term::Null => true, Term::Array(_) => true, Term::Map(_) => true, Term::Set(s) => set_has_null(s), _ => false }
    }
    pub open spec fn pred_v33(p: Predicate) -> bool { exists|i: int| 0 <= i < p.terms@.len() && needs_3_3(#[trigger] p.terms@[i]) }
    // 3.1 operators: bitwise and / or / xor, != (strict)
    pub open spec fn op_v31(op: Op) -> bool {
        match op { Op::Binary(b) => b is BitwiseAnd || b is BitwiseOr || b is BitwiseXor || b is NotEqual, _ => false }
    }
    // 3.3 operators: closures, typeof, extern calls, heterogeneous (in)equality, lazy && ||, all / any, get
    pub open spec fn op_v33(op: Op) -> bool {
        match op {
            Op::Value(t) => needs_3_3(t),
            Op::Closure(_, _) => true,
            Op::Unary(u) => u is TypeOf || u is Ffi,
            Op::Binary(b) => b is HeterogeneousEqual || b is HeterogeneousNotEqual || b is LazyAnd || b is LazyOr || b is All || b is Any || b is Get || b is Ffi,
        }
    }
    pub open spec fn expr_v31(e: Expression) -> bool { exists|i: int| 0 <= i < e.ops@.len() && op_v31(#[trigger] e.ops@[i]) }
    pub open spec fn expr_v33(e: Expression) -> bool { exists|i: int| 0 <= i < e.ops@.len() && op_v33(#[trigger] e.ops@[i]) }
    pub open spec fn exprs_v31(es: Seq<Expression>) -> bool { exists|i: int| 0 <= i < es.len() && expr_v31(#[trigger] es[i]) }
    pub open spec fn exprs_v33(es: Seq<Expression>) -> bool { exists|i: int| 0 <= i < es.len() && expr_v33(#[trigger] es[i]) }
    pub open spec fn check_has_scopes(c: Check) -> bool { exists|i: int| 0 <= i < c.queries@.len() && (#[trigger] c.queries@[i]).scopes@.len() > 0 }
    pub open spec fn block_has_scopes(rules: Seq<Rule>, checks: Seq<Check>, scopes: Seq<Scope>) -> bool {
        scopes.len() > 0
        || (exists|i: int| 0 <= i < rules.len() && (#[trigger] rules[i]).scopes@.len() > 0)
        || (exists|i: int| 0 <= i < checks.len() && check_has_scopes(#[trigger] checks[i]))
    }
    pub open spec fn check_v31(c: Check) -> bool { exists|i: int| 0 <= i < c.queries@.len() && exprs_v31((#[trigger] c.queries@[i]).expressions@) }
    pub open spec fn block_v31(rules: Seq<Rule>, checks: Seq<Check>) -> bool {
        (exists|i: int| 0 <= i < rules.len() && exprs_v31((#[trigger] rules[i]).expressions@))
        || (exists|i: int| 0 <= i < checks.len() && check_v31(#[trigger] checks[i]))
    }
    pub open spec fn body_v33(body: Seq<Predicate>) -> bool { exists|i: int| 0 <= i < body.len() && pred_v33(#[trigger] body[i]) }
    pub open spec fn rule_v33(r: Rule) -> bool { pred_v33(r.head) || body_v33(r.body@) || exprs_v33(r.expressions@) }
    pub open spec fn query_v33(q: Rule) -> bool { body_v33(q.body@) || exprs_v33(q.expressions@) }
    pub open spec fn check_v33(c: Check) -> bool { exists|i: int| 0 <= i < c.queries@.len() && query_v33(#[trigger] c.queries@[i]) }
    pub open spec fn block_v33(facts: Seq<Fact>, rules: Seq<Rule>, checks: Seq<Check>) -> bool {
        (exists|i: int| 0 <= i < checks.len() && (#[trigger] checks[i]).kind == CheckKind::Reject)
        || (exists|i: int| 0 <= i < rules.len() && rule_v33(#[trigger] rules[i]))
        || (exists|i: int| 0 <= i < checks.len() && check_v33(#[trigger] checks[i]))
        || (exists|i: int| 0 <= i < facts.len() && pred_v33((#[trigger] facts[i]).predicate))
    }
}
//@canary array-not-3-3 :: datalog::contains_v3_3_term :: Term::Array(_) | Term::Map(_) => true, ==>> Term::Map(_) => true,
//@canary get-not-3-3 :: datalog::contains_v3_3_op :: | Binary::Get ==>>
//@canary lazy-or-not-3-3 :: datalog::contains_v3_3_op :: | Binary::LazyOr ==>>
//@canary noteq-not-3-1 :: datalog::contains_v3_1_op :: | Binary::NotEqual => return true, ==>> => return true,
//@canary compat-3-3-under-3-1 :: datalog::SchemaVersion::check_compatibility :: } else if self.contains_v3_3 { ==>> } else if false {
//@canary version-check-all :: datalog::SchemaVersion::version :: self.contains_scopes || self.contains_v3_1 || self.contains_check_all ==>> self.contains_scopes || self.contains_v3_1
//@canary reject-not-3-3 :: datalog::get_schema_version :: } else if c.kind == CheckKind::Reject { ==>> } else if false {
//@canary facts-not-scanned :: datalog::get_schema_version :: .any(|fact| contains_v3_3_predicate(&fact.predicate)) ==>> .any(|fact| false)
