// =======================================================================================
// Unit `srcconv` — token/builder/scope.rs (C09): conversion of parsed Datalog source into builder objects.
// The parser (biscuit-parser, nom) is outside the verifier; what it returns for `trusting <alg>/<hex>` is a
// byte string of ANY length (parse_hex), so nothing may be assumed about it here.
// =======================================================================================
#![feature(allocator_api)]
#![allow(unused)]
use vstd::prelude::*;
verus! {
//@include std_prelude.rs

pub mod biscuit_parser { pub mod builder {
    use vstd::prelude::*;
    //@extract biscuit-parser/src/builder.rs :: enum Algorithm
    //@end
    //@extract biscuit-parser/src/builder.rs :: struct PublicKey
    //@end
    //@extract biscuit-parser/src/builder.rs :: enum Scope
    //@end
} }
pub mod error {
    use vstd::prelude::*;
    #[verifier::external_body] pub struct Format { _p: u8 }
    impl std::fmt::Debug for Format { #[verifier::external_body] fn fmt(&self, f: &mut std::fmt::Formatter<'_>) -> std::fmt::Result { unimplemented!() } }
}
pub mod builder {
    use vstd::prelude::*;
    use crate::verif_std::*;
    use crate::error;
    use crate::biscuit_parser;
    pub enum Algorithm { Ed25519, Secp256r1 }
    impl VerifInto<Algorithm> for crate::biscuit_parser::builder::Algorithm {
        open spec fn into_req(self) -> bool { true }
        open spec fn into_spec(self) -> Algorithm { match self { crate::biscuit_parser::builder::Algorithm::Ed25519 => Algorithm::Ed25519, crate::biscuit_parser::builder::Algorithm::Secp256r1 => Algorithm::Secp256r1 } }
        #[verifier::external_body]
        fn verif_into(self) -> (r: Algorithm) { unimplemented!() }
    }
    #[verifier::external_body] pub struct PublicKey { _p: u8 }
    impl PublicKey {
        // unit chain (crypto::PublicKey::from_bytes): Ok only for a well-formed key of the algorithm's length; Err otherwise
        #[verifier::external_body]
        pub fn from_bytes(bytes: &[u8], algorithm: Algorithm) -> (r: Result<PublicKey, error::Format>)
            ensures r is Ok ==> bytes@.len() == (match algorithm { Algorithm::Ed25519 => 32int, Algorithm::Secp256r1 => 33int })
        { unimplemented!() }
    }
    //@extract biscuit-auth/src/token/builder/scope.rs :: enum Scope
    //@end
    impl Scope {
        //@extract biscuit-auth/src/token/builder/scope.rs :: impl From<biscuit_parser::builder::Scope> for Scope :: fn from
        //@ id token::builder::scope::Scope::From::from
        //@end
    }
}
} // verus!
fn main() {}
