// =======================================================================================
// Unit `srcconv` — token/builder/scope.rs (C09): conversion of parsed Datalog source into builder objects.
// The parser (biscuit-parser, nom) is outside the verifier; what it returns for `trusting <alg>/<hex>` is a
// byte string of ANY length (parse_hex), so nothing may be assumed about it here.
// =======================================================================================
#![feature(allocator_api)]
#![allow(unused)]
use vstd::prelude::*;
verus! {
//@include std_prelude.rs

pub mod biscuit_parser { pub mod builder {
    use vstd::prelude::*;
    //@extract biscuit-parser/src/builder.rs :: enum Algorithm
    //@end
    //@extract biscuit-parser/src/builder.rs :: struct PublicKey
    //@end
    //@extract biscuit-parser/src/builder.rs :: enum Scope
    //@end
} }
pub mod error {
    use vstd::prelude::*;
    #[verifier::external_body] pub struct Format { _p: u8 }
    impl std::fmt::Debug for Format { #[verifier::external_body] fn fmt(&self, f: &mut std::fmt::Formatter<'_>) -> std::fmt::Result { unimplemented!() } }
}
pub mod builder {
    use vstd::prelude::*;
    use crate::verif_std::*;
    use crate::error;
    use crate::biscuit_parser;
    pub enum Algorithm { Ed25519, Secp256r1 }
    impl VerifInto<Algorithm> for crate::biscuit_parser::builder::Algorithm {
        open spec fn into_req(self) -> bool { true }
        open spec fn into_spec(self) -> Algorithm { match self { crate::biscuit_parser::builder::Algorithm::Ed25519 => Algorithm::Ed25519, crate::biscuit_parser::builder::Algorithm::Secp256r1 => Algorithm::Secp256r1 } }
        #[verifier::external_body]
        fn verif_into(self) -> (r: Algorithm) { unimplemented!() }
    }
    #[verifier::external_body] pub struct PublicKey { _p: u8 }
    impl PublicKey {
        // unit chain (crypto::PublicKey::from_bytes): Ok only for a well-formed key of the algorithm's length; Err otherwise
        #[verifier::external_body]
        pub fn from_bytes(bytes: &[u8], algorithm: Algorithm) -> (r: Result<PublicKey, error::Format>)
            ensures r is Ok ==> bytes@.len() == (match algorithm { Algorithm::Ed25519 => 32int, Algorithm::Secp256r1 => 33int })
        { unimplemented!() }
    }
    //@extract biscuit-auth/src/token/builder/scope.rs :: enum Scope
    //@end
    impl Scope {
        //@extract biscuit-auth/src/token/builder/scope.rs :: impl From<biscuit_parser::builder::Scope> for Scope :: fn from
        //@ id token::builder::scope::Scope::From::from
        //@end
    }
}
pub mod term_conv {
    // token/builder/term.rs: conversion of a Datalog date (u64 seconds, from token contents) into a SystemTime
    use vstd::prelude::*;
    use std::collections::{BTreeMap, BTreeSet};
    use std::ops::Add;
    #[verifier::external_body] pub struct TokenError { _p: u8 }
    pub mod error { pub use super::TokenError as Token; }
    // what the message-building arm returns (R4 drops the text)
    #[verifier::external_body] pub fn verif_conversion_error() -> TokenError { unimplemented!() }
    //@extract biscuit-auth/src/token/builder/term.rs :: enum Term
    //@end
    //@extract biscuit-auth/src/token/builder/term.rs :: enum MapKey
    //@end
    // ASSUMED model of std::time: seconds since the epoch; `SystemTime + Duration` PANICS when the result is not
    // representable (i64 seconds on the supported platforms), checked_add returns None instead
    pub const MAX_TIME_SECS: u64 = 9223372036854775807;
    pub struct Duration { pub secs: u64 }
    impl Duration { #[verifier::external_body] pub fn from_secs(s: u64) -> (r: Duration) ensures r.secs == s { unimplemented!() } }
    #[derive(Clone, Copy)]
    pub struct SystemTime { pub secs: u64 }
    pub const UNIX_EPOCH: SystemTime = SystemTime { secs: 0 };
    impl vstd::std_specs::ops::AddSpecImpl<Duration> for SystemTime {
        open spec fn obeys_add_spec() -> bool { true }
        open spec fn add_req(self, rhs: Duration) -> bool { self.secs + rhs.secs <= MAX_TIME_SECS }
        open spec fn add_spec(self, rhs: Duration) -> SystemTime { SystemTime { secs: (self.secs + rhs.secs) as u64 } }
    }
    impl Add<Duration> for SystemTime { type Output = SystemTime; #[verifier::external_body] fn add(self, rhs: Duration) -> SystemTime { unimplemented!() } }
    impl SystemTime {
        #[verifier::external_body]
        pub fn checked_add(&self, d: Duration) -> (r: Option<SystemTime>)
            ensures r == (if self.secs + d.secs <= MAX_TIME_SECS { Some(SystemTime { secs: (self.secs + d.secs) as u64 }) } else { None::<SystemTime> })
        { unimplemented!() }
    }
    impl SystemTime {
        //@extract biscuit-auth/src/token/builder/term.rs :: impl TryFrom<Term> for SystemTime :: fn try_from
        //@ id token::builder::term::SystemTime::TryFrom::try_from
        //@ sub error::Token::ConversionError\(verif_msg\(\)\) => verif_conversion_error()
        //@ sub Result<Self, Self::Error> => Result<Self, error::Token>
        //@ ensures date: value is Date && value->Date_0 <= MAX_TIME_SECS ==> r is Ok && r->Ok_0.secs == value->Date_0
        //@ ensures other: !(value is Date) ==> r is Err
        //@end
    }
}
//@canary date-unchecked-add :: token::builder::term::SystemTime::TryFrom::try_from :: Term::Date(d) => UNIX_EPOCH\n                .checked_add(Duration::from_secs(d)) ==>> Term::Date(d) => Some(UNIX_EPOCH + Duration::from_secs(d))
} // verus!
fn main() {}
