// ---------------------------------------------------------------------------------------
// std_prelude.rs — ASSUMED specifications of std items that vstd does not specify, and the
// wrappers that the mechanical rewrites R2 / R4 introduce. Everything in this file is part
// of the trusted base and is listed as such in every evidence file.
// ---------------------------------------------------------------------------------------
pub mod verif_std {
    use vstd::prelude::*;

    // the items an IntoIterator yields, as a mathematical sequence (uninterpreted; the
    // axioms below fix it for the concrete container types the extracted code uses)
    pub uninterp spec fn iter_seq<T, I>(i: I) -> Seq<T>;

    pub assume_specification<T: Clone> [<[T]>::to_vec] (s: &[T]) -> (r: Vec<T>)
        ensures r@ == s@;

    pub assume_specification<T: std::cmp::Ord + std::marker::Destruct> [std::cmp::max] (a: T, b: T) -> (r: T)
        ensures r == a || r == b;

    pub assume_specification<T, E, U, F: FnOnce(T) -> Result<U, E>> [std::result::Result::<T, E>::and_then] (r: Result<T, E>, f: F) -> (o: Result<U, E>)
        requires r is Ok ==> call_requires(f, (r->Ok_0,)),
        ensures r is Err ==> o is Err && o->Err_0 == r->Err_0,
                r is Ok ==> call_ensures(f, (r->Ok_0,), o);

    pub assume_specification<'a, T: Copy> [std::option::Option::<&T>::copied] (o: Option<&'a T>) -> (r: Option<T>)
        ensures r == (match o { Some(x) => Some(*x), None => None::<T> });

    pub assume_specification<T: Clone> [<[T] as std::borrow::ToOwned>::to_owned] (s: &[T]) -> (r: Vec<T>)
        ensures r@ == s@;

    pub assume_specification<T, A: std::alloc::Allocator, I: std::iter::IntoIterator<Item = T>>
        [<Vec<T, A> as std::iter::Extend<T>>::extend] (v: &mut Vec<T, A>, i: I)
        ensures final(v)@ == old(v)@ + iter_seq::<T, I>(i);

    pub assume_specification<'a, T: Copy + 'a, A: std::alloc::Allocator, I: std::iter::IntoIterator<Item = &'a T>>
        [<Vec<T, A> as std::iter::Extend<&'a T>>::extend] (v: &mut Vec<T, A>, i: I)
        ensures final(v)@ == old(v)@ + iter_seq::<T, I>(i);

    // `v.extend(o.iter().cloned())` (per-item rewrite): appends the elements of o (Clone is the identity in specifications)
    #[verifier::external_body]
    pub fn verif_extend_cloned<T: Clone>(v: &mut Vec<T>, o: &Vec<T>)
        ensures final(v)@ == old(v)@ + o@
    { v.extend(o.iter().cloned()) }

    pub assume_specification<T, const N: usize> [<[T]>::first_chunk::<N>] (s: &[T]) -> (r: Option<&[T; N]>)
        ensures r is Some <==> s@.len() >= N,
                r is Some ==> r->Some_0@ == s@.subrange(0, N as int);

    pub broadcast axiom fn iter_seq_vec<T>(v: Vec<T>)
        ensures #[trigger] iter_seq::<T, Vec<T>>(v) == v@;
    pub broadcast axiom fn iter_seq_arr4(v: [u8; 4])
        ensures #[trigger] iter_seq::<u8, [u8; 4]>(v) == v@;
    pub broadcast axiom fn iter_seq_refarr4<'a>(v: &'a [u8; 4])
        ensures #[trigger] iter_seq::<u8, &'a [u8; 4]>(v) == v@;
    pub broadcast axiom fn iter_seq_refvec<'a>(v: &'a Vec<u8>)
        ensures #[trigger] iter_seq::<u8, &'a Vec<u8>>(v) == v@;
    pub broadcast axiom fn iter_seq_slice<'a>(v: &'a [u8])
        ensures #[trigger] iter_seq::<u8, &'a [u8]>(v) == v@;

    pub broadcast group iter_seq_axioms {
        iter_seq_vec, iter_seq_arr4, iter_seq_refarr4, iter_seq_refvec, iter_seq_slice,
    }

    // R4: error-message text is dropped; the value is an arbitrary String
    #[verifier::external_body]
    pub fn verif_msg() -> String { unimplemented!() }

    // R2: little-endian encoding of 32-bit integers, as an uninterpreted injective function
    pub uninterp spec fn le32(x: u32) -> Seq<u8>;
    pub uninterp spec fn lei32(x: i32) -> Seq<u8>;
    pub broadcast axiom fn le32_len(x: u32) ensures #[trigger] le32(x).len() == 4;
    pub broadcast axiom fn lei32_len(x: i32) ensures #[trigger] lei32(x).len() == 4;
    pub broadcast axiom fn le32_inj(x: u32, y: u32) ensures #[trigger] le32(x) == #[trigger] le32(y) ==> x == y;
    pub broadcast axiom fn lei32_inj(x: i32, y: i32) ensures #[trigger] lei32(x) == #[trigger] lei32(y) ==> x == y;

    // big-endian encoding: another uninterpreted function (nothing relates it to the little-endian one, so code that
    // writes big-endian bytes where a layout asks for little-endian ones fails the layout clause)
    pub uninterp spec fn be32(x: u32) -> Seq<u8>;
    pub uninterp spec fn bei32(x: i32) -> Seq<u8>;
    pub broadcast axiom fn be32_len(x: u32) ensures #[trigger] be32(x).len() == 4;
    pub broadcast axiom fn bei32_len(x: i32) ensures #[trigger] bei32(x).len() == 4;

    pub trait VerifLe: Sized {
        spec fn le_spec(self) -> Seq<u8>;
        spec fn be_spec(self) -> Seq<u8>;
        fn verif_to_le_bytes(self) -> (r: [u8; 4])
            ensures r@ == self.le_spec();
        fn verif_to_be_bytes(self) -> (r: [u8; 4])
            ensures r@ == self.be_spec();
    }
    impl VerifLe for u32 {
        open spec fn le_spec(self) -> Seq<u8> { le32(self) }
        open spec fn be_spec(self) -> Seq<u8> { be32(self) }
        #[verifier::external_body]
        fn verif_to_le_bytes(self) -> (r: [u8; 4]) { self.to_le_bytes() }
        #[verifier::external_body]
        fn verif_to_be_bytes(self) -> (r: [u8; 4]) { self.to_be_bytes() }
    }
    impl VerifLe for i32 {
        open spec fn le_spec(self) -> Seq<u8> { lei32(self) }
        open spec fn be_spec(self) -> Seq<u8> { bei32(self) }
        #[verifier::external_body]
        fn verif_to_le_bytes(self) -> (r: [u8; 4]) { self.to_le_bytes() }
        #[verifier::external_body]
        fn verif_to_be_bytes(self) -> (r: [u8; 4]) { self.to_be_bytes() }
    }

    // R13: `x.try_into()` for the two conversions the crate uses (Vec<u8> / &[u8] -> [u8; N]):
    // succeeds exactly when the length is N and then keeps the bytes
    #[verifier::external_type_specification]
    #[verifier::external_body]
    pub struct ExTryFromSliceError(std::array::TryFromSliceError);
    pub trait VerifTryInto<T>: Sized {
        type Error;
        spec fn try_into_spec(self) -> Option<T>;
        fn verif_try_into(self) -> (r: Result<T, Self::Error>)
            ensures r is Ok <==> self.try_into_spec() is Some, r is Ok ==> r->Ok_0 == self.try_into_spec()->Some_0;
    }
    pub uninterp spec fn arr_of<const N: usize>(s: Seq<u8>) -> [u8; N];
    pub broadcast axiom fn arr_of_view<const N: usize>(s: Seq<u8>)
        ensures s.len() == N ==> (#[trigger] arr_of::<N>(s))@ == s;
    impl<const N: usize> VerifTryInto<[u8; N]> for Vec<u8> {
        type Error = Vec<u8>;
        open spec fn try_into_spec(self) -> Option<[u8; N]> { if self@.len() == N { Some(arr_of::<N>(self@)) } else { None } }
        #[verifier::external_body]
        fn verif_try_into(self) -> (r: Result<[u8; N], Vec<u8>>) { std::convert::TryInto::try_into(self) }
    }
    impl<'a, const N: usize> VerifTryInto<[u8; N]> for &'a [u8] {
        type Error = std::array::TryFromSliceError;
        open spec fn try_into_spec(self) -> Option<[u8; N]> { if self@.len() == N { Some(arr_of::<N>(self@)) } else { None } }
        #[verifier::external_body]
        fn verif_try_into(self) -> (r: Result<[u8; N], std::array::TryFromSliceError>) { std::convert::TryInto::try_into(self) }
    }
    // R16: `x.into()`; the conversions the extracted code uses are the identity, [u8; N] -> Vec<u8>
    // (std) and the crate's own error conversions (error_mod.rs, proved there from `From::from`)
    pub trait VerifInto<T>: Sized {
        spec fn into_req(self) -> bool;      // false where the real conversion panics
        spec fn into_spec(self) -> T;
        fn verif_into(self) -> (r: T) requires self.into_req() ensures r == self.into_spec();
    }
    impl<T> VerifInto<T> for T {
        open spec fn into_req(self) -> bool { true }
        open spec fn into_spec(self) -> T { self }
        fn verif_into(self) -> (r: T) { self }
    }
    pub uninterp spec fn vec_of(s: Seq<u8>) -> Vec<u8>;
    pub broadcast axiom fn vec_of_view(s: Seq<u8>) ensures (#[trigger] vec_of(s))@ == s;
    impl<const N: usize> VerifInto<Vec<u8>> for [u8; N] {
        open spec fn into_req(self) -> bool { true }
        open spec fn into_spec(self) -> Vec<u8> { vec_of(self@) }
        #[verifier::external_body]
        fn verif_into(self) -> (r: Vec<u8>) { self.into() }
    }

    // Iterator::max over u32 items (vstd has no specification for it); the iterator argument is
    // not modelled, so the result is only known to be an Option
    pub uninterp spec fn iter_min_spec<I>(i: I) -> Option<u32>;
    pub uninterp spec fn iter_last_spec<I>(i: I) -> Option<u32>;
    #[verifier::external_body]
    pub fn verif_iter_min<I: Iterator<Item = u32>>(i: I) -> (r: Option<u32>) ensures r == iter_min_spec(i) { i.min() }
    #[verifier::external_body]
    pub fn verif_iter_last<I: Iterator<Item = u32>>(i: I) -> (r: Option<u32>) ensures r == iter_last_spec(i) { i.last() }
    pub uninterp spec fn iter_max_spec<I>(i: I) -> Option<u32>;
    #[verifier::external_body]
    pub fn verif_iter_max<I: Iterator<Item = u32>>(i: I) -> (r: Option<u32>) ensures r == iter_max_spec(i) { i.max() }

    // rule A2: an iterator argument outside Verus' subset (chain / once / empty adaptors) is
    // replaced by this opaque iterator: nothing is known about what it yields
    pub struct VerifOpaqueIter { pub _p: u8 }
    impl VerifOpaqueIter {
        #[verifier::external_body]
        pub fn new() -> Self { unimplemented!() }
    }
    impl Iterator for VerifOpaqueIter {
        type Item = u32;
        #[verifier::external_body]
        fn next(&mut self) -> Option<u32> { unimplemented!() }
    }

    // rule A6: an iterator pipeline over u32 items (empty / once / array / iter / chain / map of a field) is replaced
    // by this opaque iterator, which carries the SEQUENCE of the items the pipeline yields (computed mechanically
    // from the pipeline text by tools/unit.py iter_pipeline_seq); max / last of it are those of the sequence
    pub struct VerifU32Iter { pub _p: u8 }
    pub uninterp spec fn u32_iter_items(it: VerifU32Iter) -> Seq<u32>;
    impl VerifU32Iter {
        #[verifier::external_body]
        pub fn of(Ghost(s): Ghost<Seq<u32>>) -> (r: Self) ensures u32_iter_items(r) == s { unimplemented!() }
    }
    impl Iterator for VerifU32Iter {
        type Item = u32;
        #[verifier::external_body]
        fn next(&mut self) -> Option<u32> { unimplemented!() }
    }
    pub open spec fn seq_max_opt(s: Seq<u32>) -> Option<u32>
        decreases s.len()
    {
        if s.len() == 0 { None } else {
            match seq_max_opt(s.drop_last()) {
                None => Some(s.last()),
                Some(m) => Some(if s.last() >= m { s.last() } else { m }),
            }
        }
    }
    pub proof fn lemma_seq_max_ge(s: Seq<u32>, i: int)
        requires 0 <= i < s.len()
        ensures seq_max_opt(s) is Some && s[i] <= seq_max_opt(s)->Some_0
        decreases s.len()
    {
        if i < s.len() - 1 { lemma_seq_max_ge(s.drop_last(), i); }
        else if s.len() > 1 { lemma_seq_max_ge(s.drop_last(), 0); }
    }
    pub proof fn lemma_seq_max_in(s: Seq<u32>)
        requires s.len() > 0
        ensures seq_max_opt(s) is Some && exists|i: int| 0 <= i < s.len() && s[i] == seq_max_opt(s)->Some_0
        decreases s.len()
    {
        if s.len() > 1 {
            lemma_seq_max_in(s.drop_last());
            let j = choose|j: int| 0 <= j < s.drop_last().len() && s.drop_last()[j] == seq_max_opt(s.drop_last())->Some_0;
            assert(s[j] == s.drop_last()[j]);
            assert(s[s.len() - 1] == s.last());
        } else { assert(s[0] == s.last()); }
    }
    pub broadcast axiom fn ax_u32_iter_max(it: VerifU32Iter)
        ensures #[trigger] iter_max_spec(it) == seq_max_opt(u32_iter_items(it));
    pub broadcast axiom fn ax_u32_iter_last(it: VerifU32Iter)
        ensures #[trigger] iter_last_spec(it) == (if u32_iter_items(it).len() == 0 { None::<u32> } else { Some(u32_iter_items(it).last()) });

    // `&v[..]` is specified by vstd as a full subrange
    pub broadcast proof fn subrange_full<T>(s: Seq<T>)
        ensures #[trigger] s.subrange(0, s.len() as int) == s
    { assert(s.subrange(0, s.len() as int) =~= s); }

    // `slice.as_ref()` for T: AsRef<[u8]> (no relation between the argument and the bytes is modelled)
    #[verifier::external_body]
    pub fn verif_as_ref<T: AsRef<[u8]>>(t: &T) -> (r: &[u8]) { t.as_ref() }

    // R10: `X.iter().any(c)` / `.all(c)` -> verif_any(&X, c) / verif_all(&X, c); bodies are the original
    // expressions, contracts are stated over the closure's own contract
    #[verifier::external_body]
    pub fn verif_any<T, F: Fn(&T) -> bool>(v: &[T], f: F) -> (r: bool)
        requires forall|i: int| 0 <= i < v@.len() ==> call_requires(f, (&#[trigger] v@[i],))
        ensures
            r ==> exists|i: int| 0 <= i < v@.len() && call_ensures(f, (&#[trigger] v@[i],), true),
            !r ==> forall|i: int| 0 <= i < v@.len() ==> call_ensures(f, (&#[trigger] v@[i],), false),
    { v.iter().any(f) }
    #[verifier::external_body]
    pub fn verif_all<T, F: Fn(&T) -> bool>(v: &[T], f: F) -> (r: bool)
        requires forall|i: int| 0 <= i < v@.len() ==> call_requires(f, (&#[trigger] v@[i],))
        ensures
            r ==> forall|i: int| 0 <= i < v@.len() ==> call_ensures(f, (&#[trigger] v@[i],), true),
            !r ==> exists|i: int| 0 <= i < v@.len() && call_ensures(f, (&#[trigger] v@[i],), false),
    { v.iter().all(f) }

    // R10 (position): index of the first element the closure accepts, stated over the closure's own contract
    #[verifier::external_body]
    pub fn verif_position<T, F: Fn(&T) -> bool>(v: &[T], f: F) -> (r: Option<usize>)
        requires forall|i: int| 0 <= i < v@.len() ==> call_requires(f, (&#[trigger] v@[i],))
        ensures
            r is Some ==> r->Some_0 < v@.len() && call_ensures(f, (&v@[r->Some_0 as int],), true)
                && forall|i: int| 0 <= i < r->Some_0 ==> call_ensures(f, (&#[trigger] v@[i],), false),
            r is None ==> forall|i: int| 0 <= i < v@.len() ==> call_ensures(f, (&#[trigger] v@[i],), false),
    { v.iter().position(f) }

    pub uninterp spec fn arr_ref_of<'a, const N: usize>(s: &'a [u8]) -> &'a [u8; N];
    pub broadcast axiom fn arr_ref_of_view<'a, const N: usize>(s: &'a [u8])
        ensures s@.len() == N ==> (#[trigger] arr_ref_of::<N>(s))@ == s@;
    impl<'a, const N: usize> VerifTryInto<&'a [u8; N]> for &'a [u8] {
        type Error = std::array::TryFromSliceError;
        open spec fn try_into_spec(self) -> Option<&'a [u8; N]> { if self@.len() == N { Some(arr_ref_of::<N>(self)) } else { None } }
        #[verifier::external_body]
        fn verif_try_into(self) -> (r: Result<&'a [u8; N], std::array::TryFromSliceError>) { std::convert::TryInto::try_into(self) }
    }

    pub broadcast proof fn arr_ext<const N: usize>(a: [u8; N], b: [u8; N])
        ensures #[trigger] a@ == #[trigger] b@ ==> a == b
    { if a@ == b@ { assert(a =~= b); } }
    pub broadcast group verif_std_axioms {
        iter_seq_vec, iter_seq_arr4, iter_seq_refarr4, iter_seq_refvec, iter_seq_slice,
        le32_len, lei32_len, le32_inj, lei32_inj, be32_len, bei32_len, ax_u32_iter_max, ax_u32_iter_last, arr_of_view, arr_ref_of_view, arr_ext, vec_of_view, subrange_full,
    }
}
