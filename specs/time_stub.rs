pub mod time {
    use vstd::prelude::*;
    use std::cmp::Ordering;
    use std::ops::{Add, SubAssign};
    // ASSUMED model of std::time::Duration and of the crate's time::Instant: a number of nanoseconds;
    // `+` PANICS on overflow and Duration `-=` PANICS on underflow (as in std), hence add_req / sub_assign_req
    pub const MAX_NANOS: u128 = 18446744073709551615u128 * 1000000000u128 + 999999999u128;
    pub struct Duration { pub nanos: u128 }
    pub struct Instant { pub nanos: u128 }
    impl Clone for Duration { #[verifier::external_body] fn clone(&self) -> (r: Self) ensures r == *self { unimplemented!() } }
    impl Copy for Duration {}
    impl Clone for Instant { #[verifier::external_body] fn clone(&self) -> (r: Self) ensures r == *self { unimplemented!() } }
    impl Copy for Instant {}
    impl vstd::std_specs::cmp::PartialEqSpecImpl for Duration {
        open spec fn obeys_eq_spec() -> bool { true }
        open spec fn eq_spec(&self, o: &Duration) -> bool { self.nanos == o.nanos }
    }
    impl PartialEq for Duration { #[verifier::external_body] fn eq(&self, o: &Duration) -> bool { unimplemented!() } }
    impl vstd::std_specs::cmp::PartialOrdSpecImpl for Duration {
        open spec fn obeys_partial_cmp_spec() -> bool { true }
        open spec fn partial_cmp_spec(&self, o: &Duration) -> Option<Ordering> {
            if self.nanos < o.nanos { Some(Ordering::Less) } else if self.nanos > o.nanos { Some(Ordering::Greater) } else { Some(Ordering::Equal) }
        }
    }
    impl PartialOrd for Duration { #[verifier::external_body] fn partial_cmp(&self, o: &Duration) -> Option<Ordering> { unimplemented!() } }
    impl vstd::std_specs::cmp::PartialEqSpecImpl for Instant {
        open spec fn obeys_eq_spec() -> bool { true }
        open spec fn eq_spec(&self, o: &Instant) -> bool { self.nanos == o.nanos }
    }
    impl PartialEq for Instant { #[verifier::external_body] fn eq(&self, o: &Instant) -> bool { unimplemented!() } }
    impl vstd::std_specs::cmp::PartialOrdSpecImpl for Instant {
        open spec fn obeys_partial_cmp_spec() -> bool { true }
        open spec fn partial_cmp_spec(&self, o: &Instant) -> Option<Ordering> {
            if self.nanos < o.nanos { Some(Ordering::Less) } else if self.nanos > o.nanos { Some(Ordering::Greater) } else { Some(Ordering::Equal) }
        }
    }
    impl PartialOrd for Instant { #[verifier::external_body] fn partial_cmp(&self, o: &Instant) -> Option<Ordering> { unimplemented!() } }
    impl vstd::std_specs::ops::AddSpecImpl<Duration> for Duration {
        open spec fn obeys_add_spec() -> bool { true }
        open spec fn add_req(self, rhs: Duration) -> bool { self.nanos + rhs.nanos <= MAX_NANOS }
        open spec fn add_spec(self, rhs: Duration) -> Duration { Duration { nanos: (self.nanos + rhs.nanos) as u128 } }
    }
    impl Add<Duration> for Duration { type Output = Duration; #[verifier::external_body] fn add(self, rhs: Duration) -> Duration { unimplemented!() } }
    // (this build of Verus type-checks this impl differently in its final erasure pass; checks run with --no-erasure-check)
    impl vstd::std_specs::ops::SubAssignSpecImpl<Duration> for Duration {
        open spec fn obeys_sub_assign_spec() -> bool { true }
        open spec fn sub_assign_req(self, rhs: Duration) -> bool { self.nanos >= rhs.nanos }
        open spec fn sub_assign_spec(self, rhs: Duration) -> Duration { Duration { nanos: (self.nanos - rhs.nanos) as u128 } }
    }
    impl SubAssign<Duration> for Duration { #[verifier::external_body] fn sub_assign(&mut self, rhs: Duration) { unimplemented!() } }
    // time.rs: `impl Add<Duration> for Instant { self.checked_add(other).unwrap() }`
    impl vstd::std_specs::ops::AddSpecImpl<Duration> for Instant {
        open spec fn obeys_add_spec() -> bool { true }
        open spec fn add_req(self, rhs: Duration) -> bool { self.nanos + rhs.nanos <= MAX_NANOS }
        open spec fn add_spec(self, rhs: Duration) -> Instant { Instant { nanos: (self.nanos + rhs.nanos) as u128 } }
    }
    impl Add<Duration> for Instant { type Output = Instant; #[verifier::external_body] fn add(self, rhs: Duration) -> Instant { unimplemented!() } }
    impl Duration {
        #[verifier::external_body]
        pub fn is_zero(&self) -> (r: bool) ensures r == (self.nanos == 0) { unimplemented!() }
    }
    impl Instant {
        // the clock: monotone, and far from the end of the representable range (a process lifetime)
        #[verifier::external_body]
        pub fn now() -> (r: Instant) ensures r.nanos <= MAX_NANOS / 2 { unimplemented!() }
        #[verifier::external_body]
        pub fn elapsed(&self) -> (r: Duration) ensures r.nanos <= MAX_NANOS / 2 { unimplemented!() }
    }
}

