// =======================================================================================
// Unit `token` — token/mod.rs, token/unverified.rs, token/third_party.rs and the table
// reconstruction of format/mod.rs (C07, C08, C09, C12, C15). The container layer
// (chain_crypto.rs / chain_format.rs) enters as contracts only: every one of them is proved
// in unit `chain` from the same contract text (`//@include-contracts`).
// =======================================================================================
#![feature(allocator_api)]
#![allow(unused)]
#![allow(non_snake_case)]
use vstd::prelude::*;
verus! {
//@include std_prelude.rs
//@include dep_crypto.rs
//@include error_mod.rs
//@include chain_spec.rs
//@include-contracts chain_crypto.rs
//@include-contracts chain_format.rs
//@include token_body.rs
} // verus!
fn main() {}
