pub mod builder {
    use vstd::prelude::*;
    //@extract biscuit-auth/src/token/builder/algorithm.rs :: enum Algorithm
    //@end
    impl vstd::std_specs::convert::FromSpecImpl<crate::format::schema::public_key::Algorithm> for Algorithm {
        open spec fn obeys_from_spec() -> bool { true }
        open spec fn from_spec(v: crate::format::schema::public_key::Algorithm) -> Algorithm {
            match v { crate::format::schema::public_key::Algorithm::Ed25519 => Algorithm::Ed25519,
                      crate::format::schema::public_key::Algorithm::Secp256r1 => Algorithm::Secp256r1 }
        }
    }
    impl From<crate::format::schema::public_key::Algorithm> for Algorithm {
        //@extract biscuit-auth/src/token/builder/algorithm.rs :: impl From<crate::format::schema::public_key::Algorithm> for Algorithm :: fn from
        //@end
    }
    // stand-in for builder::BlockBuilder (Datalog builder, outside this unit)
    #[verifier::external_body]
    pub struct BlockBuilder { _p: u8 }
    impl BlockBuilder {
        // ASSUMED contract of BlockBuilder::build (token/builder/block.rs): total
        #[verifier::external_body]
        pub fn build(self, symbols: crate::datalog::SymbolTable) -> (r: crate::token::Block)
            ensures r.external_key is None, r.symbols.public_keys.keys@.len() == 0
        { unimplemented!() }
    }
    // token/builder/biscuit.rs: how a new token gets its keys
    pub use crate::builder_biscuit::BiscuitBuilder;
}
pub mod builder_biscuit {
    use vstd::prelude::*;
    use crate::builder::BlockBuilder;
    use crate::token::{Biscuit, default_symbol_table};
    use crate::datalog::SymbolTable;
    use crate::crypto::{KeyPair, TokenNext};
    use crate::rand;
    use crate::rand::{CryptoRng, RngCore};
    use crate::error;
    use crate::spec::*;
    use crate::tspec::*;
    //@extract biscuit-auth/src/token/builder/biscuit.rs :: struct BiscuitBuilder
    //@end
    impl BiscuitBuilder {
        //@extract biscuit-auth/src/token/builder/biscuit.rs :: impl BiscuitBuilder :: fn build
        //@ ensures keys: r is Ok ==> chain_valid(r->Ok_0.container, kp_public(*root_key), false) && r->Ok_0.container.authority.next_key == kp_public(crate::crypto::rng_keypair::<rand::rngs::OsRng>(crate::builder::Algorithm::Ed25519, rand::rngs::OsRng))
        //@ ensures root_key_id: r is Ok ==> r->Ok_0.root_key_id == self.root_key_id
        //@end
        //@extract biscuit-auth/src/token/builder/biscuit.rs :: impl BiscuitBuilder :: fn build_with_symbols
        //@ requires empty: symbols.strings_view().len() == 0 && symbols.public_keys.keys@.len() == 0
        //@ ensures keys: r is Ok ==> chain_valid(r->Ok_0.container, kp_public(*root_key), false) && r->Ok_0.container.authority.next_key == kp_public(crate::crypto::rng_keypair::<rand::rngs::OsRng>(crate::builder::Algorithm::Ed25519, rand::rngs::OsRng))
        //@ ensures root_key_id: r is Ok ==> r->Ok_0.root_key_id == self.root_key_id
        //@end
        //@extract biscuit-auth/src/token/builder/biscuit.rs :: impl BiscuitBuilder :: fn build_with_rng
        //@ requires empty: symbols.strings_view().len() == 0 && symbols.public_keys.keys@.len() == 0
        //@ ensures keys: r is Ok ==> chain_valid(r->Ok_0.container, kp_public(*root), false) && r->Ok_0.container.authority.next_key == kp_public(crate::crypto::rng_keypair::<R>(crate::builder::Algorithm::Ed25519, *old(rng)))
        //@ ensures root_key_id: r is Ok ==> r->Ok_0.root_key_id == self.root_key_id
        //@end
        //@extract biscuit-auth/src/token/builder/biscuit.rs :: impl BiscuitBuilder :: fn build_with_key_pair
        //@ requires empty: symbols.strings_view().len() == 0 && symbols.public_keys.keys@.len() == 0
        //@ requires wf: next.wf()
        //@ ensures keys: r is Ok ==> chain_valid(r->Ok_0.container, kp_public(*root), false) && r->Ok_0.container.authority.next_key == kp_public(*next)
        //@ ensures root_key_id: r is Ok ==> r->Ok_0.root_key_id == self.root_key_id
        //@end
    }
}

pub mod datalog {
    use vstd::prelude::*;
    use crate::verif_std::*;
    use crate::crypto::PublicKey;
    use crate::{error, token::public_keys::PublicKeys};
    // stand-ins for the Datalog IR types held by a token::Block (opaque in this unit)
    #[verifier::external_body] pub struct Fact { _p: u8 }
    #[verifier::external_body] pub struct Rule { _p: u8 }
    #[verifier::external_body] pub struct Check { _p: u8 }

    //@extract biscuit-auth/src/datalog/symbol.rs :: type SymbolIndex
    //@end
    //@extract biscuit-auth/src/datalog/symbol.rs :: const DEFAULT_SYMBOLS
    //@ sub \[&str; => [&'static str;
    //@end
    //@extract biscuit-auth/src/datalog/symbol.rs :: const OFFSET
    //@end
    //@extract biscuit-auth/src/datalog/symbol.rs :: struct SymbolTable
    //@end
    impl Clone for SymbolTable {
        #[verifier::external_body]
        fn clone(&self) -> (r: Self) ensures r == *self { unimplemented!() }
    }
    impl SymbolTable {
        pub open spec fn strings_view(self) -> Seq<String> { self.symbols@ }
        // ASSUMED contracts of the symbol table operations this unit calls (datalog/symbol.rs:
        // HashSet / iterator code). `from` refuses symbols of the default table; `extend` refuses
        // overlaps and appends; `is_disjoint` is exact.
        pub uninterp spec fn overlaps_default(s: Seq<String>) -> bool;
        pub open spec fn seq_disjoint<T>(a: Seq<T>, b: Seq<T>) -> bool {
            forall|i: int, j: int| 0 <= i < a.len() && 0 <= j < b.len() ==> a[i] != b[j]
        }
        //@extract biscuit-auth/src/datalog/symbol.rs :: impl SymbolTable :: fn new
        //@ ensures empty: r.strings_view() == Seq::<String>::empty() && r.public_keys.keys@ == Seq::<PublicKey>::empty()
        //@end
        //@extract biscuit-auth/src/datalog/symbol.rs :: impl SymbolTable :: fn current_offset
        //@ ensures len: r == self.strings_view().len()
        //@end
        //@extract biscuit-auth/src/datalog/symbol.rs :: impl SymbolTable :: fn from
        //@ external_body
        //@ ensures ok: r is Ok <==> !Self::overlaps_default(symbols@)
        //@ ensures table: r is Ok ==> r->Ok_0.strings_view() == symbols@ && r->Ok_0.public_keys.keys@ == Seq::<PublicKey>::empty()
        //@end
        //@extract biscuit-auth/src/datalog/symbol.rs :: impl SymbolTable :: fn extend
        //@ sub self\.symbols\.extend\(other\.symbols\.iter\(\)\.cloned\(\)\) => crate::verif_std::verif_extend_cloned(&mut self.symbols, &other.symbols)
        //@ ensures ok: r is Ok ==> Self::seq_disjoint(old(self).strings_view(), other.strings_view()) && Self::seq_disjoint(old(self).public_keys.keys@, other.public_keys.keys@)
        //@ ensures table: r is Ok ==> final(self).strings_view() == old(self).strings_view() + other.strings_view() && final(self).public_keys.keys@ == old(self).public_keys.keys@ + other.public_keys.keys@
        //@end
        //@extract biscuit-auth/src/datalog/symbol.rs :: impl SymbolTable :: fn get_symbol
        //@ ensures default: i < 1024 ==> (r is Some <==> i < 28)
        //@end
        //@extract biscuit-auth/src/datalog/symbol.rs :: impl SymbolTable :: fn print_symbol
        //@ ensures unknown: r is Err ==> r->Err_0 == error::Format::UnknownSymbol(i)
        //@end
        //@extract biscuit-auth/src/datalog/symbol.rs :: impl SymbolTable :: fn print_symbol_default
        //@end
        //@extract biscuit-auth/src/datalog/symbol.rs :: impl SymbolTable :: fn insert
        //@ external_body
        //@ ensures interned: final(self).public_keys == old(self).public_keys && (final(self).strings_view() == old(self).strings_view() || exists|t: String| final(self).strings_view() == old(self).strings_view().push(t))
        //@end
        //@extract biscuit-auth/src/datalog/symbol.rs :: impl SymbolTable :: fn is_disjoint
        //@ external_body
        //@ ensures exact: r == Self::seq_disjoint(self.strings_view(), other.strings_view())
        //@end
    }
}

pub mod token {
    use vstd::prelude::*;
    use crate::verif_std::*;
    use crate::builder::{BlockBuilder};
    pub use crate::builder;
    use crate::rand;
    use crate::rand::{CryptoRng, RngCore};
    use crate::crypto::TokenNext;
    use self::public_keys::PublicKeys;
    use super::crypto::{KeyPair, PublicKey, Signature};
    use super::datalog::SymbolTable;
    use super::error;
    use super::format::SerializedBiscuit;
    use crate::crypto::{self};
    use crate::format::convert::proto_block_to_token_block;
    use crate::format::schema::{self, ThirdPartyBlockContents};
    use crate::format::{ThirdPartyVerificationMode, THIRD_PARTY_SIGNATURE_VERSION};
    use crate::spec::*;
    use crate::tspec::*;
    pub use self::block::Block;
    pub use self::third_party::*;
    broadcast use {crate::error::qm_axioms, crate::tspec::proto_of_tables, crate::format::schema::ax_block_wire_roundtrip, crate::verif_std::subrange_full};

    //@extract biscuit-auth/src/token/mod.rs :: const MIN_SCHEMA_VERSION
    //@end
    //@extract biscuit-auth/src/token/mod.rs :: const MAX_SCHEMA_VERSION
    //@end
    //@extract biscuit-auth/src/token/mod.rs :: const DATALOG_3_1
    //@end
    //@extract biscuit-auth/src/token/mod.rs :: const DATALOG_3_2
    //@end
    //@extract biscuit-auth/src/token/mod.rs :: const DATALOG_3_3
    //@end

    // stand-in for token::Scope (Datalog scope, opaque here)
    #[verifier::external_body] pub struct Scope { _p: u8 }

    pub trait RootKeyProvider {
        spec fn choose_spec(&self, key_id: Option<u32>) -> Result<crate::crypto::PublicKey, crate::error::Format>;
        fn choose(&self, key_id: Option<u32>) -> (r: Result<crate::crypto::PublicKey, crate::error::Format>)
            ensures r == self.choose_spec(key_id);
    }

    pub mod public_keys {
        use vstd::prelude::*;
        use crate::verif_std::*;
        use crate::{crypto::PublicKey, error};
        //@extract biscuit-auth/src/token/public_keys.rs :: struct PublicKeys
        //@end
        impl Clone for PublicKeys {
            #[verifier::external_body]
            fn clone(&self) -> (r: Self) ensures r == *self { unimplemented!() }
        }
        impl PublicKeys {
            //@extract biscuit-auth/src/token/public_keys.rs :: impl PublicKeys :: fn new
            //@ ensures empty: r.keys@ == Seq::<PublicKey>::empty()
            //@end
            //@extract biscuit-auth/src/token/public_keys.rs :: impl PublicKeys :: fn is_disjoint
            //@ external_body
            //@ ensures exact: r == crate::datalog::SymbolTable::seq_disjoint(self.keys@, other.keys@)
            //@end
            //@extract biscuit-auth/src/token/public_keys.rs :: impl PublicKeys :: fn extend
            //@ sub self\.keys\.extend\(other\.keys\.iter\(\)\.cloned\(\)\) => crate::verif_std::verif_extend_cloned(&mut self.keys, &other.keys)
            //@ ensures ok: r is Ok ==> crate::datalog::SymbolTable::seq_disjoint(old(self).keys@, other.keys@) && final(self).keys@ == old(self).keys@ + other.keys@
            //@end
            //@extract biscuit-auth/src/token/public_keys.rs :: impl PublicKeys :: fn insert
            //@ rewrites R10
            //@ closure 0 returns bool
            //@ closure 0 ensures c: verif_r == (*key == *k)
            //@ ensures set: final(self).keys@ == (if old(self).keys@.contains(*k) { old(self).keys@ } else { old(self).keys@.push(*k) })
            //@ ensures index: (r as int) < final(self).keys@.len() && final(self).keys@[r as int] == *k
            //@ ensures first: forall|i: int| 0 <= i < (r as int) ==> final(self).keys@[i] != *k
            //@end
            //@extract biscuit-auth/src/token/public_keys.rs :: impl PublicKeys :: fn insert_fallible
            //@ rewrites R10
            //@ closure 0 returns bool
            //@ closure 0 ensures c: verif_r == (*key == *k)
            //@ ensures index: r is Ok ==> (r->Ok_0 as int) == old(self).keys@.len()
            //@ ensures ok: r is Ok ==> !old(self).keys@.contains(*k) && final(self).keys@ == old(self).keys@.push(*k)
            //@ ensures err: r is Err ==> old(self).keys@.contains(*k) && final(self).keys@ == old(self).keys@
            //@end
        }
    }

    pub mod block {
        use vstd::prelude::*;
        use crate::{crypto::PublicKey, datalog::{Check, Fact, Rule, SymbolTable}, error};
        use super::{public_keys::PublicKeys, Scope};
        //@extract biscuit-auth/src/token/block.rs :: struct Block
        //@end
        impl Block {
            // ASSUMED (printing, fmt): total
            #[verifier::external_body]
            pub fn print_source(&self, symbols: &SymbolTable) -> String { unimplemented!() }
        }
    }

    //@extract biscuit-auth/src/token/mod.rs :: fn default_symbol_table
    //@ ensures empty: r.strings_view().len() == 0 && r.public_keys.keys@.len() == 0
    //@end

    //@extract biscuit-auth/src/token/mod.rs :: struct Biscuit
    //@end
    impl Clone for Biscuit {
        #[verifier::external_body]
        fn clone(&self) -> (r: Self) ensures r == *self { unimplemented!() }
    }

    impl Biscuit {
        // representation invariant established by every constructor of this type
        pub open spec fn rep(self) -> bool {
            self.blocks@.len() == self.container.blocks@.len()
        }
        // C12: the in-memory tables are the ones a verifier reconstructs from the container
        pub open spec fn inv(self) -> bool {
            self.rep() && tables_upto(self.authority, self.blocks@, self.container.blocks@, self.blocks@.len() as int,
                                      self.symbols.strings_view(), self.symbols.public_keys.keys@)
        }

        //@extract biscuit-auth/src/token/mod.rs :: impl Biscuit :: fn to_vec
        //@end
        //@extract biscuit-auth/src/token/mod.rs :: impl Biscuit :: fn serialized_size
        //@end
        //@extract biscuit-auth/src/token/mod.rs :: impl Biscuit :: fn seal
        //@ ensures inv: r is Ok && self.inv() ==> r->Ok_0.inv()
        //@ ensures sealed: self.container.proof is Seal ==> r is Err
        //@ ensures frame: r is Ok ==> r->Ok_0.root_key_id == self.root_key_id && r->Ok_0.authority == self.authority && r->Ok_0.blocks == self.blocks && r->Ok_0.symbols == self.symbols
        //@ ensures container: r is Ok ==> r->Ok_0.container.authority == self.container.authority && r->Ok_0.container.blocks@ == self.container.blocks@ && r->Ok_0.container.root_key_id == self.container.root_key_id && r->Ok_0.container.proof is Seal
        //@ ensures chain: r is Ok && chain_tail_valid(self.container, false) ==> chain_tail_valid(r->Ok_0.container, false)
        //@ ensures rep: r is Ok && self.rep() ==> r->Ok_0.rep()
        //@end
        //@extract biscuit-auth/src/token/mod.rs :: impl Biscuit :: fn context
        //@ ensures len: r@.len() == 1 + self.blocks@.len()
        //@ loop 0 ghost it
        //@ loop 0 invariant len: res@.len() == 1 + it.index@
        //@end
        //@extract biscuit-auth/src/token/mod.rs :: impl Biscuit :: fn root_key_id
        //@ ensures same: r == self.root_key_id
        //@end
        //@extract biscuit-auth/src/token/mod.rs :: impl Biscuit :: fn revocation_identifiers
        //@ ensures ids: revocation_ids_of(self.container, r@)
        //@ loop 0 ghost it
        //@ loop 0 invariant len: res@.len() == 1 + it.index@
        //@ loop 0 invariant first: res@[0]@ == self.container.authority.signature.0@
        //@ loop 0 invariant rest: forall|i: int| 0 <= i < it.index@ ==> (#[trigger] res@[i + 1])@ == self.container.blocks@[i].signature.0@
        //@end
        //@extract biscuit-auth/src/token/mod.rs :: impl Biscuit :: fn external_public_keys
        //@ ensures keys: external_keys_of(self.container, r@)
        //@ closure 0 returns PublicKey
        //@ closure 0 ensures key: verif_r == sig.public_key
        //@ loop 0 ghost it
        //@ loop 0 invariant len: res@.len() == 1 + it.index@
        //@ loop 0 invariant first: res@[0] is None
        //@ loop 0 invariant rest: forall|i: int| 0 <= i < it.index@ ==> #[trigger] res@[i + 1] == ext_key(self.container.blocks@[i])
        //@end
        //@extract biscuit-auth/src/token/mod.rs :: impl Biscuit :: fn print_block_source
        //@ requires rep: self.rep()
        //@ requires len: self.blocks@.len() < usize::MAX
        //@end
        //@extract biscuit-auth/src/token/mod.rs :: impl Biscuit :: fn block_version
        //@ requires rep: self.rep()
        //@ requires len: self.blocks@.len() < usize::MAX
        //@end
        //@extract biscuit-auth/src/token/mod.rs :: impl Biscuit :: fn block_symbols
        //@end
        //@extract biscuit-auth/src/token/mod.rs :: impl Biscuit :: fn block_external_key
        //@ ensures key: r is Ok ==> (if index == 0 { r->Ok_0 == ext_key(self.container.authority) } else { index - 1 < self.container.blocks@.len() && r->Ok_0 == ext_key(self.container.blocks@[index - 1]) })
        //@ ensures range: (index != 0 && index - 1 >= self.container.blocks@.len()) ==> r is Err
        //@ closure 0 returns PublicKey
        //@ closure 0 ensures key: verif_r == signature.public_key
        //@end
        //@extract biscuit-auth/src/token/mod.rs :: impl Biscuit :: fn block_count
        //@ requires len: self.blocks@.len() < usize::MAX
        //@ ensures count: r == 1 + self.blocks@.len()
        //@end
        //@extract biscuit-auth/src/token/mod.rs :: impl Biscuit :: fn block
        //@ ensures decoded: r is Ok ==> (index == 0 ==> Ok::<Block, error::Format>(r->Ok_0) == crate::format::convert::block_of(self.authority, ext_key(self.container.authority))) && (index > 0 ==> Ok::<Block, error::Format>(r->Ok_0) == crate::format::convert::block_of(self.blocks@[index - 1], ext_key(self.container.blocks@[index - 1])))
        //@ requires rep: self.rep()
        //@ requires len: self.blocks@.len() < usize::MAX
        //@ closure 0 returns PublicKey
        //@ closure 0 ensures key: verif_r == ex.public_key
        //@ closure 1 returns PublicKey
        //@ closure 1 ensures key: verif_r == ex.public_key
        //@end
    }

    impl Biscuit {
        //@extract biscuit-auth/src/token/mod.rs :: impl Biscuit :: fn new_with_key_pair
        //@ ensures next_key: r is Ok ==> r->Ok_0.container.authority.next_key == kp_public(*next_keypair) && r->Ok_0.container.proof == TokenNext::Secret(kp_private(*next_keypair))
        //@ requires empty: symbols.strings_view().len() == 0 && symbols.public_keys.keys@.len() == 0 && authority.symbols.public_keys.keys@.len() == 0
        //@ ensures inv: r is Ok ==> r->Ok_0.inv()
        //@ ghost before_tail :: proof { assert(symbols.strings_view() =~= authority.symbols@); assert(symbols.public_keys.keys@.len() == authority.public_keys@.len()); }
        //@ requires wf: next_keypair.wf()
        //@ ensures rep: r is Ok ==> r->Ok_0.rep()
        //@ ensures chain: r is Ok ==> chain_valid(r->Ok_0.container, kp_public(*root), false) && r->Ok_0.container.blocks@.len() == 0
        //@ ensures root_key_id: r is Ok ==> r->Ok_0.root_key_id == root_key_id && r->Ok_0.container.root_key_id == root_key_id
        //@end
        //@extract biscuit-auth/src/token/mod.rs :: impl Biscuit :: fn new_with_rng
        //@ requires empty: symbols.strings_view().len() == 0 && symbols.public_keys.keys@.len() == 0 && authority.symbols.public_keys.keys@.len() == 0
        //@ ensures next_key: r is Ok ==> r->Ok_0.container.authority.next_key == kp_public(crate::crypto::rng_keypair::<T>(builder::Algorithm::Ed25519, *old(rng))) && r->Ok_0.container.proof == TokenNext::Secret(kp_private(crate::crypto::rng_keypair::<T>(builder::Algorithm::Ed25519, *old(rng))))
        //@ ensures chain: r is Ok ==> chain_valid(r->Ok_0.container, kp_public(*root), false) && r->Ok_0.container.blocks@.len() == 0
        //@ ensures root_key_id: r is Ok ==> r->Ok_0.root_key_id == root_key_id && r->Ok_0.container.root_key_id == root_key_id
        //@ ensures inv: r is Ok ==> r->Ok_0.inv()
        //@end
        //@extract biscuit-auth/src/token/mod.rs :: impl Biscuit :: fn from_with_symbols
        //@ requires empty: symbols.strings_view().len() == 0 && symbols.public_keys.keys@.len() == 0
        //@ ensures inv: r is Ok ==> r->Ok_0.inv()
        //@ ensures rep: r is Ok ==> r->Ok_0.rep()
        //@ ensures chain: r is Ok ==> key_provider.choose_spec(r->Ok_0.container.root_key_id) is Ok && chain_valid(r->Ok_0.container, key_provider.choose_spec(r->Ok_0.container.root_key_id)->Ok_0, false)
        //@ ensures wire: r is Ok ==> schema::wire_decode(slice@) is Some && wire_rel(schema::wire_decode(slice@)->Some_0, r->Ok_0.container, true)
        //@ ensures root_key_id: r is Ok ==> r->Ok_0.root_key_id == r->Ok_0.container.root_key_id
        //@end
        //@extract biscuit-auth/src/token/mod.rs :: impl Biscuit :: fn from
        //@ sub slice\.as_ref\(\) => crate::verif_std::verif_as_ref(&slice)
        //@ ensures chain: r is Ok ==> key_provider.choose_spec(r->Ok_0.container.root_key_id) is Ok && chain_valid(r->Ok_0.container, key_provider.choose_spec(r->Ok_0.container.root_key_id)->Ok_0, false)
        //@ ensures inv: r is Ok ==> r->Ok_0.inv()
        //@end
        //@extract biscuit-auth/src/token/mod.rs :: impl Biscuit :: fn unsafe_deprecated_deserialize
        //@ sub slice\.as_ref\(\) => crate::verif_std::verif_as_ref(&slice)
        //@ ensures chain: r is Ok ==> key_provider.choose_spec(r->Ok_0.container.root_key_id) is Ok && chain_valid(r->Ok_0.container, key_provider.choose_spec(r->Ok_0.container.root_key_id)->Ok_0, true)
        //@ ensures inv: r is Ok ==> r->Ok_0.inv()
        //@end
        //@extract biscuit-auth/src/token/mod.rs :: impl Biscuit :: fn from_serialized_container
        //@ requires empty: symbols.strings_view().len() == 0 && symbols.public_keys.keys@.len() == 0
        //@ ensures inv: r is Ok ==> r->Ok_0.inv()
        //@ ensures rep: r is Ok ==> r->Ok_0.rep()
        //@ ensures container: r is Ok ==> r->Ok_0.container == container && r->Ok_0.root_key_id == container.root_key_id
        //@end
        //@extract biscuit-auth/src/token/mod.rs :: impl Biscuit :: fn container
        //@ ensures same: *r == self.container
        //@end
        //@extract biscuit-auth/src/token/mod.rs :: impl Biscuit :: fn append_with_keypair
        //@ ensures next_key: r is Ok ==> last_block(r->Ok_0.container).next_key == kp_public(*keypair) && r->Ok_0.container.proof == TokenNext::Secret(kp_private(*keypair))
        //@ ensures inv: r is Ok && self.inv() ==> r->Ok_0.inv()
        //@ ghost before_tail :: proof { if self.inv() { lemma_tables_push(self.authority, self.blocks@, self.container.blocks@, deser, last_block(container), container.blocks@, self.symbols.strings_view(), self.symbols.public_keys.keys@, block.symbols.strings_view(), block.public_keys.keys@); assert(block.symbols.public_keys.keys@ =~= Seq::<PublicKey>::empty()); assert(symbols.public_keys.keys@ =~= self.symbols.public_keys.keys@ + block.public_keys.keys@); } }
        //@ requires rep: self.rep()
        //@ requires wf: keypair.wf()
        //@ ensures sealed: self.container.proof is Seal ==> r is Err
        //@ ensures rep: r is Ok ==> r->Ok_0.rep()
        //@ ensures frame: r is Ok ==> appended(self.container, r->Ok_0.container) && r->Ok_0.root_key_id == self.root_key_id && r->Ok_0.authority == self.authority && last_block(r->Ok_0.container).external_signature is None
        //@ ensures chain: r is Ok && chain_tail_valid(self.container, false) ==> chain_tail_valid(r->Ok_0.container, false)
        //@end
        //@extract biscuit-auth/src/token/mod.rs :: impl Biscuit :: fn append
        //@ requires rep: self.rep()
        //@ ensures fresh_key: r is Ok ==> last_block(r->Ok_0.container).next_key == kp_public(crate::crypto::rng_keypair::<rand::rngs::OsRng>(builder::Algorithm::Ed25519, rand::rngs::OsRng)) && r->Ok_0.container.proof == TokenNext::Secret(kp_private(crate::crypto::rng_keypair::<rand::rngs::OsRng>(builder::Algorithm::Ed25519, rand::rngs::OsRng)))
        //@ ensures sealed: self.container.proof is Seal ==> r is Err
        //@end
        //@extract biscuit-auth/src/token/mod.rs :: impl Biscuit :: fn append_third_party
        //@ requires rep: self.rep()
        //@ ensures fresh_key: r is Ok ==> last_block(r->Ok_0.container).next_key == kp_public(crate::crypto::rng_keypair::<rand::rngs::OsRng>(builder::Algorithm::Ed25519, rand::rngs::OsRng)) && r->Ok_0.container.proof == TokenNext::Secret(kp_private(crate::crypto::rng_keypair::<rand::rngs::OsRng>(builder::Algorithm::Ed25519, rand::rngs::OsRng)))
        //@ ensures sealed: self.container.proof is Seal ==> r is Err
        //@end
        //@extract biscuit-auth/src/token/mod.rs :: impl Biscuit :: fn third_party_request
        //@ ensures sealed: self.container.proof is Seal ==> r == Err::<ThirdPartyRequest, error::Token>(error::Token::AppendOnSealed)
        //@ ensures prev: r is Ok ==> r->Ok_0.previous_signature@ == last_block(self.container).signature.0@
        //@end
        //@extract biscuit-auth/src/token/mod.rs :: impl Biscuit :: fn append_third_party_with_keypair
        //@ ensures next_key: r is Ok ==> last_block(r->Ok_0.container).next_key == kp_public(next_keypair) && r->Ok_0.container.proof == TokenNext::Secret(kp_private(next_keypair))
        //@ ensures inv: r is Ok && self.inv() ==> r->Ok_0.inv()
        //@ ghost before_tail :: proof { if self.inv() { lemma_tables_push(self.authority, self.blocks@, self.container.blocks@, block, last_block(container), container.blocks@, self.symbols.strings_view(), self.symbols.public_keys.keys@, Seq::<String>::empty(), Seq::<PublicKey>::empty()); assert(self.symbols.strings_view() + Seq::<String>::empty() =~= self.symbols.strings_view()); assert(self.symbols.public_keys.keys@ + Seq::<PublicKey>::empty() =~= self.symbols.public_keys.keys@); } }
        //@ requires rep: self.rep()
        //@ requires wf: next_keypair.wf()
        //@ ensures sealed: self.container.proof is Seal ==> r is Err
        //@ ensures rep: r is Ok ==> r->Ok_0.rep()
        //@ ensures key: r is Ok ==> pk_proto_rel(response.0.external_signature.public_key, external_key)
        //@ ensures ext_sig: r is Ok ==> sig_ok(external_key, external_payload_v1(response.0.payload@, last_block(self.container).signature.0@, 1u32), response.0.external_signature.signature@)
        //@ ensures frame: r is Ok ==> appended(self.container, r->Ok_0.container) && r->Ok_0.root_key_id == self.root_key_id && r->Ok_0.authority == self.authority && r->Ok_0.symbols == self.symbols
        //@ ensures block: r is Ok ==> last_block(r->Ok_0.container).data@ == response.0.payload@ && ext_key(last_block(r->Ok_0.container)) == Some(external_key)
        //@ ensures chain: r is Ok && chain_tail_valid(self.container, false) ==> chain_tail_valid(r->Ok_0.container, false)
        //@end
    }

    pub mod unverified {
        use vstd::prelude::*;
        use crate::verif_std::*;
        use super::{default_symbol_table, Biscuit, Block};
        use crate::{
            builder::BlockBuilder,
            crypto::{self, PublicKey, Signature},
            datalog::SymbolTable,
            error,
            format::{
                convert::proto_block_to_token_block,
                schema::{self, public_key::Algorithm},
                SerializedBiscuit,
            },
            token::{ThirdPartyBlockContents, ThirdPartyRequest},
        };
        use crate::crypto::KeyPair;
        use crate::rand;
        use crate::crypto::TokenNext;
        use crate::token::RootKeyProvider;
        use crate::spec::*;
        use crate::tspec::*;
        broadcast use {crate::error::qm_axioms, crate::tspec::proto_of_tables, crate::format::schema::ax_block_wire_roundtrip, crate::verif_std::subrange_full};

        //@extract biscuit-auth/src/token/unverified.rs :: struct UnverifiedBiscuit
        //@end
        impl Clone for UnverifiedBiscuit {
            #[verifier::external_body]
            fn clone(&self) -> (r: Self) ensures r == *self { unimplemented!() }
        }
        impl UnverifiedBiscuit {
            pub open spec fn rep(self) -> bool { self.blocks@.len() == self.container.blocks@.len() }
            pub open spec fn inv(self) -> bool {
                self.rep() && tables_upto(self.authority, self.blocks@, self.container.blocks@, self.blocks@.len() as int,
                                          self.symbols.strings_view(), self.symbols.public_keys.keys@)
            }

            //@extract biscuit-auth/src/token/unverified.rs :: impl UnverifiedBiscuit :: fn from
            //@ sub slice\.as_ref\(\) => crate::verif_std::verif_as_ref(&slice)
            //@ ensures inv: r is Ok ==> r->Ok_0.inv()
            //@end
            //@extract biscuit-auth/src/token/unverified.rs :: impl UnverifiedBiscuit :: fn unsafe_deprecated_deserialize
            //@ ensures inv: r is Ok ==> r->Ok_0.inv()
            //@ sub slice\.as_ref\(\) => crate::verif_std::verif_as_ref(&slice)
            //@ ensures rep: r is Ok ==> r->Ok_0.rep()
            //@end
            //@extract biscuit-auth/src/token/unverified.rs :: impl UnverifiedBiscuit :: fn verify
            //@ ensures inv: r is Ok && self.inv() ==> r->Ok_0.inv()
            //@ requires rep: self.rep()
            //@ ensures chain: r is Ok ==> key_provider.choose_spec(self.container.root_key_id) is Ok && chain_valid(r->Ok_0.container, key_provider.choose_spec(self.container.root_key_id)->Ok_0, false)
            //@ ensures same: r is Ok ==> r->Ok_0.container == self.container && r->Ok_0.authority == self.authority && r->Ok_0.blocks == self.blocks && r->Ok_0.symbols == self.symbols && r->Ok_0.root_key_id == self.container.root_key_id
            //@ ensures rep_out: r is Ok ==> r->Ok_0.rep()
            //@end
            //@extract biscuit-auth/src/token/unverified.rs :: impl UnverifiedBiscuit :: fn to_vec
            //@end
            //@extract biscuit-auth/src/token/unverified.rs :: impl UnverifiedBiscuit :: fn from_with_symbols
            //@ ensures inv: r is Ok ==> r->Ok_0.inv()
            //@ requires empty: symbols.strings_view().len() == 0 && symbols.public_keys.keys@.len() == 0
            //@ ensures rep: r is Ok ==> r->Ok_0.rep()
            //@ ensures wire: r is Ok ==> schema::wire_decode(slice@) is Some && wire_rel(schema::wire_decode(slice@)->Some_0, r->Ok_0.container, true)
            //@end
            //@extract biscuit-auth/src/token/unverified.rs :: impl UnverifiedBiscuit :: fn append_with_keypair
            //@ ensures next_key: r is Ok ==> last_block(r->Ok_0.container).next_key == kp_public(*keypair) && r->Ok_0.container.proof == TokenNext::Secret(kp_private(*keypair))
            //@ ensures inv: r is Ok && self.inv() ==> r->Ok_0.inv()
            //@ ghost before_tail :: proof { if self.inv() { lemma_tables_push(self.authority, self.blocks@, self.container.blocks@, deser, last_block(container), container.blocks@, self.symbols.strings_view(), self.symbols.public_keys.keys@, block.symbols.strings_view(), block.public_keys.keys@); assert(block.symbols.public_keys.keys@ =~= Seq::<PublicKey>::empty()); assert(symbols.public_keys.keys@ =~= self.symbols.public_keys.keys@ + block.public_keys.keys@); } }
            //@ requires rep: self.rep()
            //@ requires wf: keypair.wf()
            //@ ensures sealed: self.container.proof is Seal ==> r is Err
            //@ ensures rep: r is Ok ==> r->Ok_0.rep()
            //@ ensures frame: r is Ok ==> appended(self.container, r->Ok_0.container) && r->Ok_0.authority == self.authority && last_block(r->Ok_0.container).external_signature is None
            //@ ensures chain: r is Ok && chain_tail_valid(self.container, false) ==> chain_tail_valid(r->Ok_0.container, false)
            //@end
            //@extract biscuit-auth/src/token/unverified.rs :: impl UnverifiedBiscuit :: fn append
            //@ requires rep: self.rep()
            //@ ensures fresh_key: r is Ok ==> last_block(r->Ok_0.container).next_key == kp_public(crate::crypto::rng_keypair::<rand::rngs::OsRng>(crate::builder::Algorithm::Ed25519, rand::rngs::OsRng)) && r->Ok_0.container.proof == TokenNext::Secret(kp_private(crate::crypto::rng_keypair::<rand::rngs::OsRng>(crate::builder::Algorithm::Ed25519, rand::rngs::OsRng)))
            //@ ensures sealed: self.container.proof is Seal ==> r is Err
            //@end
            //@extract biscuit-auth/src/token/unverified.rs :: impl UnverifiedBiscuit :: fn append_third_party
            //@ requires rep: self.rep()
            //@ ensures fresh_key: r is Ok ==> last_block(r->Ok_0.container).next_key == kp_public(crate::crypto::rng_keypair::<rand::rngs::OsRng>(crate::builder::Algorithm::Ed25519, rand::rngs::OsRng)) && r->Ok_0.container.proof == TokenNext::Secret(kp_private(crate::crypto::rng_keypair::<rand::rngs::OsRng>(crate::builder::Algorithm::Ed25519, rand::rngs::OsRng)))
            //@ ensures sealed: self.container.proof is Seal ==> r is Err
            //@end
            //@extract biscuit-auth/src/token/unverified.rs :: impl UnverifiedBiscuit :: fn root_key_id
            //@ ensures same: r == self.container.root_key_id
            //@end
            //@extract biscuit-auth/src/token/unverified.rs :: impl UnverifiedBiscuit :: fn revocation_identifiers
            //@ ensures ids: revocation_ids_of(self.container, r@)
            //@ loop 0 ghost it
            //@ loop 0 invariant len: res@.len() == 1 + it.index@
            //@ loop 0 invariant first: res@[0]@ == self.container.authority.signature.0@
            //@ loop 0 invariant rest: forall|i: int| 0 <= i < it.index@ ==> (#[trigger] res@[i + 1])@ == self.container.blocks@[i].signature.0@
            //@end
            //@extract biscuit-auth/src/token/unverified.rs :: impl UnverifiedBiscuit :: fn external_public_keys
            //@ ensures keys: external_keys_of(self.container, r@)
            //@ closure 0 returns PublicKey
            //@ closure 0 ensures key: verif_r == sig.public_key
            //@ loop 0 ghost it
            //@ loop 0 invariant len: res@.len() == 1 + it.index@
            //@ loop 0 invariant first: res@[0] is None
            //@ loop 0 invariant rest: forall|i: int| 0 <= i < it.index@ ==> #[trigger] res@[i + 1] == ext_key(self.container.blocks@[i])
            //@end
            //@extract biscuit-auth/src/token/unverified.rs :: impl UnverifiedBiscuit :: fn block_count
            //@ requires len: self.container.blocks@.len() < usize::MAX
            //@ ensures count: r == 1 + self.container.blocks@.len()
            //@end
            //@extract biscuit-auth/src/token/unverified.rs :: impl UnverifiedBiscuit :: fn print_block_source
            //@ requires rep: self.rep()
            //@ requires len: self.blocks@.len() < usize::MAX
            //@end
            //@extract biscuit-auth/src/token/unverified.rs :: impl UnverifiedBiscuit :: fn block_version
            //@ requires rep: self.rep()
            //@ requires len: self.blocks@.len() < usize::MAX
            //@end
            //@extract biscuit-auth/src/token/unverified.rs :: impl UnverifiedBiscuit :: fn block
            //@ ensures decoded: r is Ok ==> (index == 0 ==> Ok::<Block, error::Format>(r->Ok_0) == crate::format::convert::block_of(self.authority, ext_key(self.container.authority))) && (index > 0 ==> Ok::<Block, error::Format>(r->Ok_0) == crate::format::convert::block_of(self.blocks@[index - 1], ext_key(self.container.blocks@[index - 1])))
            //@ requires rep: self.rep()
            //@ requires len: self.blocks@.len() < usize::MAX
            //@ closure 0 returns PublicKey
            //@ closure 0 ensures key: verif_r == ex.public_key
            //@ closure 1 returns PublicKey
            //@ closure 1 ensures key: verif_r == ex.public_key
            //@end
            //@extract biscuit-auth/src/token/unverified.rs :: impl UnverifiedBiscuit :: fn seal
            //@ ensures inv: r is Ok && self.inv() ==> r->Ok_0.inv()
            //@ ensures sealed: self.container.proof is Seal ==> r is Err
            //@ ensures frame: r is Ok ==> r->Ok_0.authority == self.authority && r->Ok_0.blocks == self.blocks && r->Ok_0.symbols == self.symbols
            //@ ensures container: r is Ok ==> r->Ok_0.container.authority == self.container.authority && r->Ok_0.container.blocks@ == self.container.blocks@ && r->Ok_0.container.root_key_id == self.container.root_key_id && r->Ok_0.container.proof is Seal
            //@ ensures rep: r is Ok && self.rep() ==> r->Ok_0.rep()
            //@end
            //@extract biscuit-auth/src/token/unverified.rs :: impl UnverifiedBiscuit :: fn third_party_request
            //@ ensures sealed: self.container.proof is Seal ==> r == Err::<ThirdPartyRequest, error::Token>(error::Token::AppendOnSealed)
            //@ ensures prev: r is Ok ==> r->Ok_0.previous_signature@ == last_block(self.container).signature.0@
            //@end
            //@extract biscuit-auth/src/token/unverified.rs :: impl UnverifiedBiscuit :: fn append_third_party_with_keypair
            //@ ensures next_key: r is Ok ==> last_block(r->Ok_0.container).next_key == kp_public(next_keypair) && r->Ok_0.container.proof == TokenNext::Secret(kp_private(next_keypair))
            //@ ensures inv: r is Ok && self.inv() ==> r->Ok_0.inv()
            //@ ghost before_tail :: proof { if self.inv() { lemma_tables_push(self.authority, self.blocks@, self.container.blocks@, block, last_block(container), container.blocks@, self.symbols.strings_view(), self.symbols.public_keys.keys@, Seq::<String>::empty(), Seq::<PublicKey>::empty()); assert(self.symbols.strings_view() + Seq::<String>::empty() =~= self.symbols.strings_view()); assert(self.symbols.public_keys.keys@ + Seq::<PublicKey>::empty() =~= self.symbols.public_keys.keys@); } }
            //@ requires rep: self.rep()
            //@ requires wf: next_keypair.wf()
            //@ ensures sealed: self.container.proof is Seal ==> r is Err
            //@ ensures rep: r is Ok ==> r->Ok_0.rep()
            //@ ensures frame: r is Ok ==> appended(self.container, r->Ok_0.container) && r->Ok_0.authority == self.authority
            //@ ensures tables: r is Ok ==> r->Ok_0.symbols == self.symbols
            //@end
        }
    }

    pub mod third_party {
        use vstd::prelude::*;
        use crate::verif_std::*;
        use std::cmp::max;
        use crate::{
            builder::BlockBuilder,
            crypto::generate_external_signature_payload_v1,
            datalog::SymbolTable,
            error,
            format::{convert::token_block_to_proto_block, schema, SerializedBiscuit},
        };
        use crate::crypto::{KeyPair, PrivateKey};
        use super::THIRD_PARTY_SIGNATURE_VERSION;
        use crate::spec::*;
        use crate::tspec::*;
        broadcast use {crate::error::qm_axioms, crate::verif_std::verif_std_axioms};

        //@extract biscuit-auth/src/token/third_party.rs :: struct ThirdPartyRequest
        //@end
        //@extract biscuit-auth/src/token/third_party.rs :: struct ThirdPartyBlock
        //@end
        impl ThirdPartyRequest {
            //@extract biscuit-auth/src/token/third_party.rs :: impl ThirdPartyRequest :: fn from_container
            //@ ensures sealed: container.proof is Seal ==> r == Err::<ThirdPartyRequest, error::Token>(error::Token::AppendOnSealed)
            //@ ensures prev: r is Ok ==> r->Ok_0.previous_signature@ == last_block(*container).signature.0@
            //@end
            //@extract biscuit-auth/src/token/third_party.rs :: impl ThirdPartyRequest :: fn deserialize
            //@ ensures prev: r is Ok ==> schema::tpr_wire_decode(slice@) is Some && r->Ok_0.previous_signature@ == schema::tpr_wire_decode(slice@)->Some_0.previous_signature@
            //@ ensures legacy: r is Ok ==> schema::tpr_wire_decode(slice@)->Some_0.legacy_previous_key is None && schema::tpr_wire_decode(slice@)->Some_0.legacy_public_keys@.len() == 0
            //@end
            //@extract biscuit-auth/src/token/third_party.rs :: impl ThirdPartyRequest :: fn create_block
            //@ ensures key: r is Ok ==> pk_proto_exact(r->Ok_0.0.external_signature.public_key, pk_of(*private_key))
            //@ ensures sig: r is Ok ==> r->Ok_0.0.external_signature.signature@ == sign_spec(kp_of(*private_key), external_payload_v1(r->Ok_0.0.payload@, self.previous_signature@, 1u32))
            //@end
        }
    }
}

pub mod format_ext {
    // format/mod.rs, second part: table reconstruction (needs the symbol table types)
    use vstd::prelude::*;
    use crate::verif_std::*;
    use crate::crypto::{self, KeyPair, PrivateKey, PublicKey, TokenNext};
    use crate::error;
    use crate::format::schema;
    use crate::datalog::SymbolTable;
    use crate::spec::*;
    use crate::tspec::*;
    broadcast use {crate::error::qm_axioms, crate::verif_std::verif_std_axioms};
    impl crate::format::SerializedBiscuit {
        //@extract biscuit-auth/src/format/mod.rs :: impl SerializedBiscuit :: fn extract_blocks
        //@ attr #[verifier::loop_isolation(false)]
        //@ ensures len: r is Ok ==> r->Ok_0.1@.len() == self.blocks@.len()
        //@ ensures decoded: r is Ok ==> schema::block_wire_decode(self.authority.data@) == Some(r->Ok_0.0) && forall|i: int| 0 <= i < self.blocks@.len() ==> schema::block_wire_decode(self.blocks@[i].data@) == Some(#[trigger] r->Ok_0.1@[i])
        //@ requires empty: old(symbols).strings_view().len() == 0 && old(symbols).public_keys.keys@.len() == 0
        //@ ensures tables: r is Ok ==> tables_upto(r->Ok_0.0, r->Ok_0.1@, self.blocks@, self.blocks@.len() as int, final(symbols).strings_view(), final(symbols).public_keys.keys@)
        //@ ghost before "for pk in &authority.public_keys" :: let ghost k0 = symbols.public_keys.keys@; proof { assert(symbols.strings_view() =~= authority.symbols@); assert(k0.len() == 0); }
        //@ loop 0 ghost it0
        //@ loop 0 invariant syms: symbols.strings_view() == authority.symbols@
        //@ loop 0 invariant keys: keys_match(symbols.public_keys.keys@, authority.public_keys@.subrange(0, it0.index@ as int))
        //@ ghost loop 0 end :: proof { assert(authority.public_keys@.subrange(0, it0.index@ + 1) =~= authority.public_keys@.subrange(0, it0.index@ as int).push(authority.public_keys@[it0.index@ as int])); }
        //@ ghost after_loop 0 :: proof { assert(authority.public_keys@.subrange(0, authority.public_keys@.len() as int) =~= authority.public_keys@); }
        //@ loop 1 invariant tables: tables_upto(authority, blocks@, self.blocks@, it.index@ as int, symbols.strings_view(), symbols.public_keys.keys@)
        //@ ghost loop 1 start :: let ghost s1 = symbols.strings_view(); let ghost k1 = symbols.public_keys.keys@; let ghost b1 = blocks@;
        //@ ghost before "for pk in &deser.public_keys" :: let ghost k2 = symbols.public_keys.keys@; proof { assert(k2 =~= k1); }
        //@ loop 2 ghost it2
        //@ loop 2 invariant syms: symbols.strings_view() == s1 + deser.symbols@
        //@ loop 2 invariant keys: symbols.public_keys.keys@.len() == k1.len() + it2.index@ && symbols.public_keys.keys@.subrange(0, k1.len() as int) == k1 && keys_match(symbols.public_keys.keys@.subrange(k1.len() as int, symbols.public_keys.keys@.len() as int), deser.public_keys@.subrange(0, it2.index@ as int))
        //@ ghost loop 1 end :: proof {
        //@|    lemma_upto_prefix(authority, b1, blocks@, self.blocks@, self.blocks@, it.index@ as int);
        //@|    if block.external_signature is None {
        //@|        let kk = symbols.public_keys.keys@;
        //@|        assert(deser.public_keys@.subrange(0, deser.public_keys@.len() as int) =~= deser.public_keys@);
        //@|        assert(kk =~= k1 + kk.subrange(k1.len() as int, kk.len() as int));
        //@|        lemma_keys_match_append(k1, pkeys_upto(authority, b1, self.blocks@, it.index@ as int), kk.subrange(k1.len() as int, kk.len() as int), deser.public_keys@);
        //@|    }
        //@| }
        //@ loop 1 ghost it
        //@ loop 1 invariant seq: it.seq().len() == self.blocks@.len() && forall|i: int| 0 <= i < self.blocks@.len() ==> *(#[trigger] it.seq()[i]) == self.blocks@[i]
        //@ loop 1 invariant len: blocks@.len() == it.index@
        //@ loop 1 invariant decoded: forall|i: int| 0 <= i < it.index@ ==> schema::block_wire_decode(self.blocks@[i].data@) == Some(#[trigger] blocks@[i])
        //@end
    }
}

pub mod tspec {
    use vstd::prelude::*;
    use crate::crypto::*;
    use crate::format::SerializedBiscuit;
    pub open spec fn ext_key(b: Block) -> Option<PublicKey> {
        match b.external_signature { None => None, Some(e) => Some(e.public_key) }
    }
    // the revocation identifiers are exactly the block signatures, in order
    pub open spec fn revocation_ids_of(c: SerializedBiscuit, ids: Seq<Vec<u8>>) -> bool {
        &&& ids.len() == 1 + c.blocks@.len()
        &&& ids[0]@ == c.authority.signature.0@
        &&& forall|i: int| 0 <= i < c.blocks@.len() ==> (#[trigger] ids[i + 1])@ == c.blocks@[i].signature.0@
    }
    // ---- the table invariant (C12): what a verifier reconstructs from the container ----
    use crate::format::schema;
    use crate::spec::pk_proto_rel;
    // symbols declared by the authority block and by the first n blocks, third-party blocks skipped
    pub open spec fn syms_upto(auth: schema::Block, blocks: Seq<schema::Block>, cblocks: Seq<Block>, n: int) -> Seq<String>
        decreases n
    {
        if n <= 0 { auth.symbols@ }
        else { syms_upto(auth, blocks, cblocks, n - 1) + (if cblocks[n - 1].external_signature is None { blocks[n - 1].symbols@ } else { Seq::<String>::empty() }) }
    }
    pub open spec fn pkeys_upto(auth: schema::Block, blocks: Seq<schema::Block>, cblocks: Seq<Block>, n: int) -> Seq<schema::PublicKey>
        decreases n
    {
        if n <= 0 { auth.public_keys@ }
        else { pkeys_upto(auth, blocks, cblocks, n - 1) + (if cblocks[n - 1].external_signature is None { blocks[n - 1].public_keys@ } else { Seq::<schema::PublicKey>::empty() }) }
    }
    pub open spec fn keys_match(ks: Seq<PublicKey>, ps: Seq<schema::PublicKey>) -> bool {
        ks.len() == ps.len() && forall|i: int| 0 <= i < ps.len() ==> pk_proto_rel(#[trigger] ps[i], ks[i])
    }
    // the token tables are exactly the ones a verifier reconstructs from the first n blocks
    pub open spec fn tables_upto(auth: schema::Block, blocks: Seq<schema::Block>, cblocks: Seq<Block>, n: int, syms: Seq<String>, keys: Seq<PublicKey>) -> bool {
        syms == syms_upto(auth, blocks, cblocks, n) && keys_match(keys, pkeys_upto(auth, blocks, cblocks, n))
    }
    pub proof fn lemma_upto_prefix(auth: schema::Block, b1: Seq<schema::Block>, b2: Seq<schema::Block>, c1: Seq<Block>, c2: Seq<Block>, n: int)
        requires n <= b1.len(), n <= b2.len(), n <= c1.len(), n <= c2.len(),
                 forall|i: int| 0 <= i < n ==> b1[i] == b2[i] && c1[i].external_signature == c2[i].external_signature,
        ensures syms_upto(auth, b1, c1, n) == syms_upto(auth, b2, c2, n), pkeys_upto(auth, b1, c1, n) == pkeys_upto(auth, b2, c2, n),
        decreases n
    {
        if n > 0 { lemma_upto_prefix(auth, b1, b2, c1, c2, n - 1); }
    }
    pub proof fn lemma_keys_match_append(k1: Seq<PublicKey>, p1: Seq<schema::PublicKey>, k2: Seq<PublicKey>, p2: Seq<schema::PublicKey>)
        requires keys_match(k1, p1), keys_match(k2, p2)
        ensures keys_match(k1 + k2, p1 + p2)
    {
        assert forall|i: int| 0 <= i < (p1 + p2).len() implies pk_proto_rel(#[trigger] (p1 + p2)[i], (k1 + k2)[i]) by {
            if i < p1.len() { assert((p1 + p2)[i] == p1[i]); assert((k1 + k2)[i] == k1[i]); }
            else { assert((p1 + p2)[i] == p2[i - p1.len()]); assert((k1 + k2)[i] == k2[i - k1.len()]); }
        }
    }
    // ASSUMED contract of format::convert::token_block_to_proto_block (iterator / collect code): the wire block
    // carries exactly the block's own symbols and the encodings of its own public keys
    pub broadcast axiom fn proto_of_tables(b: crate::token::Block)
        ensures (#[trigger] crate::format::convert::proto_of(b)).symbols@ == b.symbols.strings_view(),
                keys_match(b.public_keys.keys@, crate::format::convert::proto_of(b).public_keys@);
    // appending block `d` (container block `nb`) to a token whose tables satisfy the invariant
    pub proof fn lemma_tables_push(auth: schema::Block, blocks: Seq<schema::Block>, cblocks: Seq<Block>, d: schema::Block, nb: Block,
                                   cblocks2: Seq<Block>, syms: Seq<String>, keys: Seq<PublicKey>, nsyms: Seq<String>, nkeys: Seq<PublicKey>)
        requires blocks.len() == cblocks.len(), cblocks2.len() == cblocks.len() + 1, cblocks2.subrange(0, cblocks.len() as int) == cblocks, cblocks2[cblocks.len() as int] == nb,
                 tables_upto(auth, blocks, cblocks, blocks.len() as int, syms, keys),
                 nb.external_signature is None ==> nsyms == d.symbols@ && keys_match(nkeys, d.public_keys@),
                 nb.external_signature is Some ==> nsyms.len() == 0 && nkeys.len() == 0,
        ensures tables_upto(auth, blocks.push(d), cblocks2, blocks.len() as int + 1, syms + nsyms, keys + nkeys)
    {
        let n = blocks.len() as int;
        assert forall|i: int| 0 <= i < n implies blocks[i] == blocks.push(d)[i] && cblocks[i].external_signature == cblocks2[i].external_signature by {
            assert(cblocks2.subrange(0, n)[i] == cblocks2[i]);
        }
        lemma_upto_prefix(auth, blocks, blocks.push(d), cblocks, cblocks2, n);
        if nb.external_signature is None {
            lemma_keys_match_append(keys, pkeys_upto(auth, blocks, cblocks, n), nkeys, d.public_keys@);
        } else {
            assert(syms + nsyms =~= syms); assert(keys + nkeys =~= keys);
            assert(pkeys_upto(auth, blocks.push(d), cblocks2, n + 1) =~= pkeys_upto(auth, blocks.push(d), cblocks2, n));
            assert(syms_upto(auth, blocks.push(d), cblocks2, n + 1) =~= syms_upto(auth, blocks.push(d), cblocks2, n));
        }
    }
    pub open spec fn external_keys_of(c: SerializedBiscuit, ks: Seq<Option<PublicKey>>) -> bool {
        &&& ks.len() == 1 + c.blocks@.len()
        &&& ks[0] is None
        &&& forall|i: int| 0 <= i < c.blocks@.len() ==> #[trigger] ks[i + 1] == ext_key(c.blocks@[i])
    }
}
//@canary pk-insert-found-index :: token::public_keys::PublicKeys::insert :: Some(index) => index as u64, ==>> Some(index) => (index as u64) + 1,
//@canary pk-insert-fallible-dup :: token::public_keys::PublicKeys::insert_fallible :: Some(_) => Err(error::Format::PublicKeyTableOverlap), ==>> Some(i) => Ok(i as u64),
//@canary block-index-guard :: token::Biscuit::block :: if index > self.blocks.len() { ==>> if index > self.blocks.len() + 1 {
//@canary unverified-block-index-guard :: token::unverified::UnverifiedBiscuit::block :: if index > self.blocks.len() { ==>> if index > self.blocks.len() + 1 {
//@canary tp-unwrap :: token::unverified::UnverifiedBiscuit::append_third_party_with_keypair :: proto_block_to_token_block(&block, Some(external_key))?; ==>> proto_block_to_token_block(&block, Some(external_key)).unwrap();
//@canary tp-key-check :: token::Biscuit::append_third_party_with_keypair :: if external_key != provided_key { ==>> if false {
//@canary tp-legacy-mode :: token::Biscuit::append_third_party_with_keypair :: ThirdPartyVerificationMode::PreviousSignatureHashing, ==>> ThirdPartyVerificationMode::UnsafeLegacy,
//@canary revocation-ids :: token::Biscuit::revocation_identifiers :: res.push(block.signature.to_bytes().to_vec()); ==>> res.push(block.data.to_vec());
//@canary tp-request-sealed :: token::third_party::ThirdPartyRequest::from_container :: if container.proof.is_sealed() { ==>> if false {
//@canary seal-keeps-container :: token::Biscuit::seal :: token.container = container; ==>>
//@canary create-block-prevsig :: token::third_party::ThirdPartyRequest::create_block :: &self.previous_signature, ==>> &payload,
//@canary block-external-key-index :: token::Biscuit::block_external_key :: match self.container.blocks.get(index - 1) { ==>> match self.container.blocks.get(index) {
//@canary-requires token::Biscuit::block
//@canary-requires token::Biscuit::append_with_keypair
//@canary-requires token::unverified::UnverifiedBiscuit::verify
//@canary default-symbol-index :: datalog::symbol::SymbolTable::get_symbol :: DEFAULT_SYMBOLS.get(i as usize).copied() ==>> Some(DEFAULT_SYMBOLS[i as usize])
//@canary user-symbol-offset :: datalog::symbol::SymbolTable::get_symbol :: if i >= OFFSET as u64 { ==>> if i >= 28 {
//@canary tables-third-party-skipped :: format::SerializedBiscuit::extract_blocks :: if let Some(external_signature) = &block.external_signature { ==>> if false { let external_signature = block.external_signature.as_ref().unwrap();
//@canary tables-keys-not-extended :: token::Biscuit::append_with_keypair :: symbols.public_keys.extend(&block.public_keys)?; ==>>
//@canary tables-unverified-keys-not-extended :: token::unverified::UnverifiedBiscuit::append_with_keypair :: symbols.public_keys.extend(&block.public_keys)?; ==>>
//@canary tables-authority-keys :: format::SerializedBiscuit::extract_blocks :: for pk in &authority.public_keys { ==>> for pk in &authority.public_keys[0..0] {
//@canary append-key-not-from-rng :: token::Biscuit::append :: KeyPair::new_with_rng(builder::Algorithm::Ed25519, ==>> KeyPair::new_with_rng(builder::Algorithm::Secp256r1,
//@canary unverified-append-third-party-key :: token::unverified::UnverifiedBiscuit::append_third_party :: self.append_third_party_with_keypair(slice, next_keypair) ==>> self.append_third_party_with_keypair(slice, KeyPair::new_with_rng(super::builder::Algorithm::Secp256r1, &mut rand::rngs::OsRng))
//@canary authority-next-key-is-root :: token::Biscuit::new_with_rng :: &KeyPair::new_with_rng(builder::Algorithm::Ed25519, rng), ==>> root,
//@canary builder-keys-swapped :: token::builder::biscuit::BiscuitBuilder::build_with_key_pair :: Biscuit::new_with_key_pair(self.root_key_id, root, next, symbols, authority_block) ==>> Biscuit::new_with_key_pair(self.root_key_id, next, root, symbols, authority_block)
//@canary from-uses-legacy-mode :: token::Biscuit::from :: Biscuit::from_with_symbols(slice.as_ref(), key_provider, default_symbol_table()) ==>> { let container = SerializedBiscuit::unsafe_from_slice(slice.as_ref(), key_provider).map_err(error::Token::Format)?; Biscuit::from_serialized_container(container, default_symbol_table()) }
//@canary unverified-block-keys-overwritten :: token::unverified::UnverifiedBiscuit::block :: Ok(block)\n    } ==>> let mut block = block; block.symbols.public_keys = self.symbols.public_keys.clone(); Ok(block)\n    }
//@canary symtab-extend-no-disjoint :: datalog::symbol::SymbolTable::extend :: if !self.is_disjoint(other) { ==>> if false {
//@canary pubkeys-extend-no-disjoint :: token::public_keys::PublicKeys::extend :: if !self.is_disjoint(other) { ==>> if false {
