#!/usr/bin/env python3
"""Development helper: assemble a unit template and print / write the Verus file."""
import json, os, sys
sys.path.insert(0, os.path.dirname(os.path.abspath(__file__)))
import unit

def main():
    tmpl = sys.argv[1]
    out = sys.argv[2]
    repo = os.environ.get('VERIF_REPO', '/repo')
    specs = os.path.dirname(os.path.abspath(tmpl))
    text, meta = unit.assemble(tmpl, repo, specs)
    open(out, 'w').write(text)
    json.dump(meta, open(out + '.meta.json', 'w'), indent=1)
    print('assembled %d items -> %s' % (len(meta['items']), out))

if __name__ == '__main__':
    main()
