#!/usr/bin/env python3
"""Driver: ./check <property> [--tier quick|thorough] [--replay FILE] [--write-baseline]

exit 0  every obligation attached to the property is discharged on the current /repo tree and
        the vacuity guards hold (known findings are printed as KNOWN-FINDING lines)
exit 1  VIOLATION property=<id> replay=<path> [no-failing-input-found]
exit 2  UNDECIDED property=<id> reason=...   (lost anchor, front-end rejection, rlimit, canary)
"""
import concurrent.futures
import hashlib
import json
import os
import re
import subprocess
import sys
import time

HERE = os.path.dirname(os.path.abspath(__file__))
ROOT = os.path.dirname(HERE)
sys.path.insert(0, HERE)
sys.path.insert(0, os.path.join(ROOT, 'specs'))

import unit as unitmod      # noqa: E402
import run_verus            # noqa: E402
import properties as P      # noqa: E402

REPO = os.environ.get('VERIF_REPO', '/repo')
SPECS = os.path.join(ROOT, 'specs')
WORK = os.environ.get('VERIF_WORK') or os.path.join(ROOT, 'work')
EVID = os.environ.get('VERIF_EVIDENCE_DIR') or os.path.join(ROOT, 'evidence')   # try_mutant.sh points this at work/ so runs on a changed tree never overwrite committed evidence
KNOWN = os.path.join(ROOT, 'known_findings.txt')


def log(*a):
    print(*a, flush=True)


def load_known():
    known = []
    if os.path.exists(KNOWN):
        for ln in open(KNOWN):
            ln = ln.strip()
            if not ln or ln.startswith('#'):
                continue
            mo = re.match(r'^known:\s+property=(\S+)\s+obligation=(\S.*?)\s+::\s+(.*)$', ln)
            if mo:
                known.append({'property': mo.group(1), 'obligation': mo.group(2).strip(), 'text': mo.group(3)})
    return known


def trusted_scan(text):
    out = []
    lines = text.split('\n')
    for i, ln in enumerate(lines):
        s = ln.strip()
        if s.startswith('//'):
            continue
        hit = None
        for kw in ('#[verifier::external_body]', 'assume_specification', 'axiom fn', 'uninterp spec fn',
                   'assume(', 'admit(', '#[verifier::external_type_specification]', '#[verifier::external]'):
            if kw in s:
                hit = kw
                break
        if not hit:
            continue
        ctx = s
        if hit.startswith('#['):
            # name is on one of the following lines
            for j in range(i, min(i + 6, len(lines))):
                mo = re.search(r'\b(fn|struct|enum|type)\s+(\w+)', lines[j])
                if mo:
                    ctx = '%s %s' % (mo.group(1), mo.group(2))
                    break
        else:
            mo = re.search(r'\b(?:fn)\s+(\w+)', s) or re.search(r'\[(.*?)\]', s)
            if mo:
                ctx = mo.group(1)
        mo = re.search(r'/\*@I:(.*?)@\*/', ln)
        if mo:
            ctx = 'extracted signature ' + mo.group(1)
        out.append('%s: %s (unit line %d)' % (hit.strip('#[]'), ctx.strip()[:90], i + 1))
    return out


def relevant(item_id, pats):
    return any(re.search(p, item_id) for p in pats)


def obligations_of(meta, pats):
    obls = []
    for it in meta['items']:
        if it['kind'] != 'fn' or it['external_body']:
            continue
        if not relevant(it['id'], pats):
            continue
        obls.append(it['id'] + '::body')
        for l in it['ensures']:
            obls.append('%s::ensures.%s' % (it['id'], l))
        for l in it['invariants']:
            obls.append('%s::%s' % (it['id'], l))
    return obls


def run_unit(pid, u, tier, workdir):
    """Assemble + verify one unit. Returns a result dict."""
    tmpl = os.path.join(SPECS, u['template'])
    name = os.path.splitext(u['template'])[0]
    out = os.path.join(workdir, name + '.rs')
    res = {'unit': name, 'template': u['template']}
    try:
        text, meta = unitmod.assemble(tmpl, REPO, SPECS)
    except unitmod.UnitError as e:
        res['undecided'] = 'assemble: %s' % e
        return res
    open(out, 'w').write(text)
    res['file'] = out
    res['meta'] = meta
    res['text'] = text
    rl = u.get('rlimit', 30) * (4 if tier == 'thorough' else 1)
    r = run_verus.run(out, rlimit=rl)
    res['verus'] = r
    s = r['summary']
    fails = run_verus.classify(r, meta, out)
    res['fails'] = fails
    if r['timeout']:
        res['undecided'] = 'verus timed out'
    elif s is None:
        res['undecided'] = 'verus produced no summary (front-end failure): %s' % '; '.join(
            f['message'] for f in fails[:3]) or 'no output'
    elif s['verification-results'].get('encountered-vir-error') or any(f['kind'] == 'frontend' for f in fails):
        res['undecided'] = 'verus front-end rejected the unit: %s' % '; '.join(
            f['message'][:200] for f in fails if f['kind'] == 'frontend')[:600]
    res['ftab'] = run_verus.function_table(r)
    return res


def run_canary(pid, u, canary, workdir):
    tmpl = os.path.join(SPECS, u['template'])
    name = os.path.splitext(u['template'])[0]
    cid = re.sub(r'[^\w\-\.]', '_', canary['id'])
    out = os.path.join(workdir, '%s_canary_%s.rs' % (name, re.sub(r'[^A-Za-z0-9_]', '_', cid)))
    try:
        text, meta = unitmod.assemble(tmpl, REPO, SPECS, canary=canary)
    except unitmod.UnitError as e:
        return {'id': canary['id'], 'item': canary['item'], 'verdict': 'unassembled', 'detail': str(e)}
    open(out, 'w').write(text)
    r = run_verus.run(out, rlimit=30, threads=3)
    fails = run_verus.classify(r, meta, out)
    sem = [f for f in fails if f['kind'] == 'semantic']
    fe = [f for f in fails if f['kind'] == 'frontend']
    os.remove(out)
    if fe or r['summary'] is None:
        return {'id': canary['id'], 'item': canary['item'], 'verdict': 'frontend',
                'detail': '; '.join(f['message'][:120] for f in fe[:2])}
    if sem:
        return {'id': canary['id'], 'item': canary['item'], 'verdict': 'rejected',
                'detail': sem[0]['obligation'], 'kind': canary['kind']}
    rl = [f for f in fails if f['kind'] == 'rlimit']
    if rl:
        # the mutated function was NOT verified (solver gave up): counts as rejected, flagged as such
        return {'id': canary['id'], 'item': canary['item'], 'verdict': 'rejected',
                'detail': 'not verified: ' + rl[0]['obligation'], 'kind': canary['kind']}
    return {'id': canary['id'], 'item': canary['item'], 'verdict': 'SURVIVED', 'detail': ''}


def main():
    args = sys.argv[1:]
    if not args:
        log(__doc__)
        return 2
    pid = args[0]
    tier = os.environ.get('VERIF_TIER', 'quick')
    replay = None
    write_baseline = False
    i = 1
    while i < len(args):
        if args[i] == '--tier':
            tier = args[i + 1]
            i += 2
        elif args[i] == '--replay':
            replay = args[i + 1]
            i += 2
        elif args[i] == '--write-baseline':
            write_baseline = True
            i += 1
        else:
            i += 1
    try:
        seed = int(os.environ.get('VERIF_SEED', '0'))
    except ValueError:
        seed = 0
    if pid not in P.PROPS:
        log('UNDECIDED property=%s reason=not-claimed' % pid)
        return 2
    prop = P.PROPS[pid]
    t0 = time.time()
    workdir = os.path.join(WORK, pid)
    os.makedirs(workdir, exist_ok=True)
    os.makedirs(EVID, exist_ok=True)
    os.makedirs(os.path.join(WORK, 'replay'), exist_ok=True)
    evpath = os.path.join(EVID, pid + '.json')

    if replay:
        return do_replay(pid, prop, replay, workdir)

    if prop.get('backend') == 'kani':
        import check_kani
        return check_kani.main(pid, prop, tier, seed, workdir, evpath)

    known = [k for k in load_known() if k['property'] == pid]
    undecided = []
    violations = []
    known_hits = []
    unrelated = []
    all_obls = []
    failed_obls = set()
    units_ev = []
    trusted = []
    cmds = []
    fn_under = []
    canary_ev = []
    solver_ms = 0
    rewrites_total = {}
    samples = []

    for u in prop['units']:
        res = run_unit(pid, u, tier, workdir)
        name = res['unit']
        if 'meta' not in res:
            undecided.append('%s: %s' % (name, res['undecided']))
            continue
        meta = res['meta']
        pats = u['items']
        if 'undecided' in res:
            undecided.append('%s: %s' % (name, res['undecided']))
        cmds.append(res['verus']['cmd'])
        obls = [o for o in obligations_of(meta, pats)
                if not any(re.search(x, o) for x in u.get('exclude_obligations', []))]
        # template lemmas (proof fns written in /verif/specs): every one in the unit counts
        lemma_names = sorted(n for n, v in res['ftab'].items() if v.get('mode') == 'proof')
        for n in lemma_names:
            obls.append('%s::lemma::%s' % (name, n))
        # baseline guard
        bpath = os.path.join(SPECS, 'baseline', '%s.%s.json' % (pid, name))
        # source hashes of the items at baseline time: tell "the code changed" from "the template is stale"
        spath = os.path.join(SPECS, 'baseline', '%s.%s.src.json' % (pid, name))
        cur_sha = dict((it['id'], it['sha256'][:16]) for it in meta['items'] if it['kind'] == 'fn' and it.get('sha256'))
        if write_baseline:
            os.makedirs(os.path.dirname(bpath), exist_ok=True)
            json.dump(sorted(obls), open(bpath, 'w'), indent=0)
            json.dump(cur_sha, open(spath, 'w'), indent=0, sort_keys=True)
        base_sha = json.load(open(spath)) if os.path.exists(spath) else {}
        if os.path.exists(bpath):
            base = set(json.load(open(bpath)))
            missing = sorted(base - set(obls))
            if missing:
                undecided.append('%s: %d baseline obligations missing from the unit (vacuity guard): %s'
                                 % (name, len(missing), ', '.join(missing[:5])))
        else:
            undecided.append('%s: no committed baseline for this unit' % name)
        all_obls.extend(obls)
        # failures
        for f in res.get('fails', []):
            if f['kind'] == 'semantic':
                if f['item'] and relevant(f['item'], pats) and not any(
                        re.search(x, f['obligation'] or '') for x in u.get('exclude_obligations', [])):
                    kh = [k for k in known if k['obligation'] == f['obligation']]
                    if kh:
                        known_hits.append((f, kh[0]))
                        failed_obls.add(f['obligation'])
                    elif pid not in P.PANIC_PROPS and re.search(r'::(arith\[|call-pre\(vstd)', f['obligation'] or ''):
                        # an overflow / index / unwrap side condition of std: a possible PANIC, which is not what this
                        # property states (C09 does) - code that adds unprovable arithmetic is not thereby wrong
                        undecided.append('%s: possible panic (not this property, see C09): %s' % (name, f['obligation']))
                        failed_obls.add(f['obligation'])
                    else:
                        violations.append((name, f, res))
                        failed_obls.add(f['obligation'])
                else:
                    unrelated.append(f['obligation'])
            elif f['kind'] == 'rlimit':
                if f['item'] is None or relevant(f['item'], pats):
                    undecided.append('%s: resource limit in %s' % (name, f['obligation']))
            elif f['kind'] == 'internal':
                undecided.append('%s: a proof written in /verif/specs fails (%s): %s' % (name, f['obligation'], f['message']))
        # a function with an error marks its body obligation failed too
        for f in res.get('fails', []):
            if f['kind'] == 'semantic' and f['item']:
                failed_obls.add(f['item'] + '::body') if not re.search(r'::(ensures|loop\d+|closure\d+)\.', f['obligation'] or '') else None
        # every relevant function must show up in Verus' breakdown (not silently skipped)
        ft = res['ftab']
        for it in meta['items']:
            if it['kind'] == 'fn' and not it['external_body'] and relevant(it['id'], pats):
                short = it['id']
                cand = [n for n in ft if n == short or n.endswith('::' + short.split('::')[-1])]
                entry = ft.get(short)
                fn_under.append({'item': it['id'], 'file': it['file'], 'lines': [it['line_start'], it['line_end']],
                                 'sha256': it['sha256'][:16], 'rewrites': it['rewrites'],
                                 'verus_ms': (entry or {}).get('time_ms'), 'in_breakdown': entry is not None or bool(cand)})
                if entry is None and not cand and 'undecided' not in res:
                    undecided.append('%s: %s does not appear in the verifier breakdown' % (name, it['id']))
                for k, v in it['rewrites'].items():
                    rewrites_total[k] = rewrites_total.get(k, 0) + v
        trusted.extend('%s: %s' % (name, t) for t in trusted_scan(res['text']))
        try:
            solver_ms += res['verus']['summary']['times-ms']['smt']['smt-run']
        except Exception:
            pass
        units_ev.append({'unit': name, 'items_extracted': len(meta['items']),
                         'verified': (res['verus']['summary'] or {}).get('verification-results', {}).get('verified'),
                         'errors': (res['verus']['summary'] or {}).get('verification-results', {}).get('errors'),
                         'verus_wall_s': round(res['verus']['wall_s'], 2)})
        # canaries
        cans = [c for c in meta['canaries'] if relevant(c['item'], pats)]
        if tier == 'quick' and u.get('quick_canaries') is not None:
            cans = [c for c in cans if c['id'] in u['quick_canaries'] or c['kind'] == 'requires'][:u.get('max_quick_canaries', 99)]
        if cans and 'undecided' not in res:
            with concurrent.futures.ThreadPoolExecutor(max_workers=5) as ex:
                futs = [ex.submit(run_canary, pid, u, c, workdir) for c in cans]
                for fu in futs:
                    cr = fu.result()
                    if (cr['verdict'] == 'unassembled' and 'mutation source text not found' in cr.get('detail', '')
                            and cr['item'] in base_sha and cur_sha.get(cr['item']) != base_sha[cr['item']]):
                        # the text this must-fail mutation edits is gone because the FUNCTION changed since the baseline
                        # (not because the template is stale): the guard cannot be applied to the new text; every
                        # contract clause of the function is still checked on it
                        cr['verdict'] = 'not-applicable (source changed since baseline)'
                        canary_ev.append(cr)
                        continue
                    canary_ev.append(cr)
                    if cr['verdict'] != 'rejected':
                        undecided.append('%s: canary %s on %s was not rejected (%s %s)' %
                                         (name, cr['id'], cr['item'], cr['verdict'], cr.get('detail', '')))
        # samples
        for it in meta['items']:
            if it['kind'] == 'fn' and relevant(it['id'], pats) and it['ensures'] and len(samples) < 6:
                lab = it['ensures'][0]
                oid = '%s::ensures.%s' % (it['id'], lab)
                line = next((int(l) for l, c in meta['clause_lines'].items() if c == oid), None)
                clause = res['text'].split('\n')[line - 1].strip() if line else ''
                clause = re.sub(r'/\*@.*?@\*/', '', clause).strip()
                samples.append({'obligation': oid, 'clause': clause[:300],
                                'verdict': 'failed' if oid in failed_obls else 'discharged',
                                'source': '%s:%d' % (it['file'], it['line_start'])})

    wall = time.time() - t0
    known_ids = set(k['obligation'] for _, k in known_hits)
    for f, k in known_hits:      # a known side-condition finding takes the function's `body` obligation with it
        if f.get('item') and not re.search(r'::(ensures|loop\d+|closure\d+)\.', k['obligation']):
            known_ids.add(f['item'] + '::body')
    all_obls = [o for o in all_obls if o not in known_ids]      # known findings are reported apart
    n_obl = len(all_obls)
    n_dis = len([o for o in all_obls if o not in failed_obls])
    status = 'ok'
    if violations:
        status = 'violation'
    elif undecided:
        status = 'undecided'

    ev = {
        'property_id': pid,
        'tier': 'thorough' if tier == 'thorough' else 'quick',
        'seed': seed,
        'level': 'proof',
        'coverage': {
            'obligations': n_obl,
            'discharged': n_dis if status != 'undecided' else min(n_dis, n_obl),
            'checker_cmd': ' && '.join(cmds) if cmds else 'verus (not reached)',
            'trusted_base': sorted(set(trusted)) + list(P.STANDING_TRUST),
            'backend': 'Verus 0.2026.09.13 / Z3 (single-file mode on items extracted from %s)' % REPO,
            'rlimit': [u.get('rlimit', 30) * (4 if tier == 'thorough' else 1) for u in prop['units']],
            'solver_time_ms': solver_ms,
            'units': units_ev,
            'functions_under_contract': fn_under,
            'rewrites': rewrites_total,
            'canaries': canary_ev,
            'samples': samples or [{'note': 'no sample available (unit not assembled)'}],
            'status': status,
            'undecided_reasons': undecided,
            'known_findings_hit': [{'obligation': k['obligation'], 'finding': k['text']} for _, k in known_hits],
            'failing_obligations_of_other_properties': sorted(set(unrelated)),
            'what_is_proved': prop.get('proved', ''),
            'not_covered': prop.get('not_covered', []),
        },
        'assumptions': list(prop.get('assumptions', [])) + list(P.STANDING_ASSUMPTIONS),
        'wall_s': round(wall, 2),
        'violations': len(violations),
    }
    json.dump(ev, open(evpath, 'w'), indent=1)

    for f, k in known_hits:
        log('KNOWN-FINDING: property=%s %s :: %s' % (pid, k['obligation'], k['text']))
    if violations:
        seen = set()
        for name, f, res in violations:
            if f['obligation'] in seen:
                continue
            seen.add(f['obligation'])
            rp = write_replay(pid, name, f, res)
            wit = witness_search(pid, f)
            if wit:
                log('VIOLATION property=%s replay=%s obligation=%s witness=%s' % (pid, rp, f['obligation'], wit))
            else:
                log('VIOLATION property=%s replay=%s obligation=%s no-failing-input-found' % (pid, rp, f['obligation']))
        return 1
    if undecided:
        for r in undecided:
            log('UNDECIDED property=%s reason=%s' % (pid, r))
        return 2
    log('OK property=%s obligations=%d discharged=%d canaries_rejected=%d wall=%.1fs' %
        (pid, n_obl, n_dis, len([c for c in canary_ev if c['verdict'] == 'rejected']), wall))
    return 0


def write_replay(pid, name, f, res):
    h = hashlib.sha256((f['obligation'] or '').encode()).hexdigest()[:10]
    rp = os.path.join(WORK, 'replay', '%s-%s.json' % (pid, h))
    item = f.get('item')
    text = ''
    if item and 'meta' in res:
        a, b = res['meta']['item_ranges'].get(item, (None, None))
        if a and b:
            text = '\n'.join(res['text'].split('\n')[a - 1:b])
    src = next((it for it in res['meta']['items'] if it['id'] == item), None) if 'meta' in res else None
    json.dump({'property': pid, 'unit': name, 'obligation': f['obligation'], 'item': item,
               'source': ({'file': src['file'], 'lines': [src['line_start'], src['line_end']]} if src else None),
               'verifier_message': f['message'], 'verifier_output': f['rendered'],
               'extracted_function_as_verified': text,
               'counterexample': None,
               'note': 'Verus gives no counterexample; re-run with: ./check %s --replay %s' % (pid, rp)},
              open(rp, 'w'), indent=1)
    return rp


def witness_search(pid, f):
    """Concrete witness search on the real crate, when one is registered for the obligation."""
    if os.environ.get('VERIF_NO_WITNESS'):      # regression sweeps on scratch worktrees: the replay crate is built against /repo
        return None
    for pat, cmd in getattr(P, 'WITNESS', {}).items():
        if re.search(pat, f['obligation'] or ''):
            try:
                p = subprocess.run(cmd, shell=True, capture_output=True, text=True, timeout=600, cwd=ROOT)
                mo = re.search(r'^WITNESS: (.*)$', p.stdout, re.M)
                if mo:
                    return mo.group(1).strip().replace(' ', '_')
            except Exception:
                return None
    return None


def do_replay(pid, prop, replay, workdir):
    d = json.load(open(replay))
    log('replaying obligation %s of unit %s' % (d['obligation'], d['unit']))
    for u in prop['units']:
        if os.path.splitext(u['template'])[0] != d['unit']:
            continue
        res = run_unit(pid, u, 'quick', workdir)
        if 'meta' not in res:
            log('UNDECIDED property=%s reason=%s' % (pid, res.get('undecided')))
            return 2
        hit = [f for f in res['fails'] if f['obligation'] == d['obligation']]
        if hit:
            log(hit[0]['rendered'])
            log('VIOLATION property=%s replay=%s obligation=%s no-failing-input-found' % (pid, replay, d['obligation']))
            return 1
        log('obligation %s is discharged on the current tree' % d['obligation'])
        return 0
    return 2


if __name__ == '__main__':
    sys.exit(main())
