#!/bin/bash
# usage: confirm_mutant.sh <mutant dir with patch.diff + demo.rs> <seed id>
# Confirms, in the scratch worktree /tmp/wt_confirm: (1) the patch applies and the workspace test suite still
# passes with it, (2) the demo fails with it, (3) the demo passes without it. Writes <dir>/confirm.json.
D="$1"; ID="$2"; PKG="${3:-biscuit-auth}"
WT=/tmp/wt_confirm
export CARGO_NET_OFFLINE=true CARGO_TARGET_DIR=$WT/target
if [ ! -d $WT ]; then git -C /repo worktree add -q --detach $WT HEAD || exit 2; fi
cd $WT && git checkout -q --detach $(git -C /repo rev-parse HEAD) && git checkout -- . && rm -f biscuit-auth/tests/verif_demo_*.rs biscuit-capi/tests/verif_demo_*.rs
mkdir -p $PKG/tests; cp "$D/demo.rs" $PKG/tests/verif_demo_x.rs
# demo without the change
cargo test --offline -p $PKG --test verif_demo_x > $D/confirm_demo_without.log 2>&1; DW=$?
git apply "$D/patch.diff" || { echo '{"applies": false}' > $D/confirm.json; exit 1; }
cargo test --offline -p $PKG --test verif_demo_x > $D/confirm_demo_with.log 2>&1; DC=$?
rm -f $PKG/tests/verif_demo_x.rs
cargo test --workspace --no-fail-fast --offline > $D/confirm_suite_with.log 2>&1; ST=$?
if [ $ST -ne 0 ]; then   # tests with 1 ms time limits fail spuriously under load: retry once
  cargo test --workspace --no-fail-fast --offline > $D/confirm_suite_with.log 2>&1; ST=$?
fi
git checkout -- .
PASSED=$(grep -E "^test result: ok" $D/confirm_suite_with.log | sed -E 's/.* ([0-9]+) passed.*/\1/' | paste -sd+ | bc)
FAILED=$(grep -cE "^test .* FAILED" $D/confirm_suite_with.log)
printf '{"seed": "%s", "applies": true, "suite_exit_with_change": %d, "suite_tests_passed": %s, "suite_tests_failed": %s, "demo_exit_with_change": %d, "demo_exit_without_change": %d, "repo_head": "%s"}\n' \
  "$ID" $ST "${PASSED:-0}" "$FAILED" $DC $DW "$(git -C /repo rev-parse --short HEAD)" > $D/confirm.json
cat $D/confirm.json
