#!/usr/bin/env python3
"""Regenerate MANIFEST.json from specs/properties.py (claimed checks) and the fixed N/A list."""
import json, os, sys
HERE = os.path.dirname(os.path.abspath(__file__))
ROOT = os.path.dirname(HERE)
sys.path.insert(0, os.path.join(ROOT, 'specs'))
import properties as P

NA = getattr(P, 'NOT_APPLICABLE', {})
checks = []
for pid in sorted(P.PROPS):
    pr = P.PROPS[pid]
    backend = pr.get('backend', 'verus')
    checks.append({
        'property_id': pid,
        'quick_cmd': './check %s --tier quick' % pid,
        'thorough_cmd': './check %s --tier thorough' % pid,
        'evidence_file': 'evidence/%s.json' % pid,
        'replay_cmd_template': './check %s --replay {path}' % pid,
        'engine': backend,
        'level_claimed': {
            'category': 'proof',
            'text': pr.get('level_text') or ('Deductive proof, for all inputs and all loop iterations, of the contracts listed in DESIGN.md for the functions this '
                     'property depends on; the verified text is the current /repo source of each function, cut out mechanically on every run. '
                     + pr.get('proved', '')),
            'design_ref': pr.get('design_ref', 'DESIGN.md section 5, ' + pid),
        },
        'level_note': 'Assumed, not proved: ' + '; '.join(pr.get('assumptions', [])) + '. Not covered: ' + '; '.join(pr.get('not_covered', [])),
        'technique': pr.get('technique', 'contract-based deductive verification (Verus requires/ensures/invariants on mechanically extracted real functions, Z3)'),
    })
man = {
    'version': 1,
    'setup_cmd': 'true',
    'hooks': {
        'guard': 'none (no source hooks: contracts live in /verif/specs and are merged into scratch copies of the extracted functions at check time)',
        'enable': 'not applicable: checks read /repo sources directly and verify scratch copies of the extracted functions under /verif/work',
        'baseline_off_cmd': 'cd /repo && cargo test --workspace --no-fail-fast --offline',
        'source_commits': [],
        'add_only': True,
    },
    'engines': [
        {'name': 'verus', 'path': 'tools/check.py', 'serves_properties': [c['property_id'] for c in checks if c['engine'] == 'verus'],
         'kind_free_text': 'extract real items -> rewrite R1-R16 -> inject contracts -> verus single-file -> map diagnostics to named obligations; canaries on every run'},
    ],
    'checks': checks,
    'not_applicable': [{'property_id': k, 'reason': v} for k, v in sorted(NA.items())],
    'notes': 'exit 0 = all obligations discharged; exit 1 = VIOLATION line; exit 2 = UNDECIDED (lost anchor / front-end / rlimit / canary survived) and is never an alarm.',
}
if any(c['engine'] == 'kani' for c in checks):
    man['engines'].append({'name': 'kani', 'path': 'tools/check_kani.py', 'serves_properties': [c['property_id'] for c in checks if c['engine'] == 'kani'],
                           'kind_free_text': 'cargo kani on a scratch copy of the crate with harness modules appended'})
json.dump(man, open(os.path.join(ROOT, 'MANIFEST.json'), 'w'), indent=1)
print('MANIFEST.json written: %d checks, %d not applicable' % (len(checks), len(man['not_applicable'])))
