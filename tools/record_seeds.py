#!/usr/bin/env python3
"""Copy confirmed seeded changes into /verif/seeded/<id>/ with a meta.json (run by hand)."""
import json, os, shutil, sys
SEEDS = [
 # id, source dir, property, needs, detection
 ('C01-1', '/tmp/wt_C01/_out/1', 'C01', 'an ed25519 signature field longer than 64 bytes (genuine signature + trailing bytes) on the last block of an unsealed token or before a version-0 block',
  {'C01': 'VIOLATION crypto::ed25519::PublicKey::verify_signature::ensures.strict', 'C15': 'VIOLATION same obligation', 'C17': 'VIOLATION same obligation',
   'history': 'first run UNDECIDED (front end: ed25519_dalek::SIGNATURE_LENGTH and &[u8]->&[u8;N] try_into missing from the dependency stubs); caught after the stubs were completed'}),
 ('C01-2', '/tmp/wt_C01/_out/2', 'C01', 'a sealed token with zero blocks after the authority block (blocks.last() is None, the seal is never checked)',
  {'C01': 'VIOLATION format::SerializedBiscuit::verify_inner::ensures.chain', 'C08': 'VIOLATION same obligation'}),
 ('C02-1', '/tmp/wt_C02/_out/1', 'C02', 'sealing a token whose last block is a third-party block (signer and verifier changed consistently, layout no longer the specification one)',
  {'C02': 'VIOLATION crypto::generate_seal_signature_payload_v0::ensures.layout', 'C08': 'VIOLATION same obligation'}),
 ('C02-2', '/tmp/wt_C02/_out/2', 'C02', 'an unsealed token with >= 2 appended blocks whose first and last next keys use different algorithms',
  {'C02': 'UNDECIDED (exit 2): the mutation removes the local `next_key_algorithm` that the loop invariant of deserialize names, Verus front end rejects the unit; NOT detected', 'C01': 'UNDECIDED'}),
 ('C07-1', '/tmp/wt_C07/_out/1', 'C07', 'a version-0 third-party block parsed through UnverifiedBiscuit::unsafe_deprecated_deserialize and then verify()',
  {'C07': 'VIOLATION format::SerializedBiscuit::verify_inner::loop0.prefix', 'C01': 'VIOLATION same obligation'}),
 ('C07-2', '/tmp/wt_C07/_out/2', 'C07', 'a first-party block placed before a third-party block (key id -> block id map built with the wrong index)',
  {'C07': 'UNDECIDED (exit 2): the key-map loop is rewritten into filter_map + enumerate, rewrite R19 no longer applies (lost anchor); the same defect written in place (.push(i)) is a canary of unit loadb and is rejected by build_inner::loop0.map', 'C03': 'UNDECIDED (same unit)', 'history': 'first run NOT detected (exit 0, build_inner outside the units); unit loadb now puts build_inner under contract (keymap_upto)'}),
 ('C08-1', '/tmp/wt_C08/_out/1', 'C08', 'third_party_request() on a sealed token through the UnverifiedBiscuit API',
  {'C08': 'VIOLATION token::third_party::ThirdPartyRequest::from_container::ensures.sealed', 'C07': 'VIOLATION same obligation'}),
 ('C08-2', '/tmp/wt_C08/_out/2', 'C08', 'a sealed token whose final signature bytes are malformed for the key algorithm (length != 64 / not DER): error variant swallowed, trailing blocks can be dropped',
  {'C08': 'VIOLATION format::SerializedBiscuit::verify_inner::ensures.chain', 'C01': 'VIOLATION same obligation'}),
 ('C09-1', '/tmp/wt_C09/_out/1', 'C09', 'a symbol id in 28..=1023 inside a validly signed block, then printing / authorizer()',
  {'C09': 'VIOLATION datalog::symbol::SymbolTable::get_symbol::call-pre[DEFAULT_SYMBOLS[i as usize]]', 'history': 'first run NOT detected (get_symbol was not under contract yet); caught after SymbolTable::{get_symbol, print_symbol, print_symbol_default} were added to unit token'}),
 ('C09-2', '/scratch/t/rebase/C09-2', 'C09', 'an authorizer snapshot whose execution_time exceeds limits.max_time (or max_time == 0), then authorize(); patch rebased by hand on the tree after fix 42bd5ef',
  {'C09': 'VIOLATION token::authorizer::Authorizer::authorize::call-pre(vstd ops)[limits.max_time -= execution_time]', 'C10': 'VIOLATION same + ensures.cumulative_time'}),
 ('C12-1', '/tmp/wt_C12/_out/1', 'C12', 'a hand-assembled first-party block (index >= 1) that redeclares a symbol of an earlier block or of the default table',
  {'C12': 'UNDECIDED at first (SymbolTable::insert not among the stubs); see DESIGN.md for the status after the table invariant was added'}),
 ('C12-2', '/tmp/wt_C12/_out/2', 'C12', 'UnverifiedBiscuit::append of a block introducing a `trusting <key>` scope (new public keys dropped from the in-memory table)',
  {'C12': 'NOT detected at first (table invariant for first-party appends not under contract); see DESIGN.md for the status after the table invariant was added'}),
 ('C15-1', '/tmp/wt_C15/_out/1', 'C15', 'same mechanism as C01-1 (independently produced): padded ed25519 signature = different revocation identifier for the same block',
  {'C15': 'VIOLATION crypto::ed25519::PublicKey::verify_signature::ensures.strict'}),
 ('C15-2', '/tmp/wt_C15/_out/2', 'C15', 'UnverifiedBiscuit::revocation_identifiers on a token with a third-party block (external signature reported instead of the block signature)',
  {'C15': 'UNDECIDED (exit 2): the loop the invariant is attached to was replaced by an iterator chain (lost anchor); NOT detected'}),
 ('C16-1', '/tmp/wt_C16/_out/1', 'C16', 'v0 authority, then a block forcing scheme v1, then a plain first-party append (max() -> last() with the chained iterator ending on the authority)',
  {'C16': 'VIOLATION format::block_signature_version::ensures.otherwise', 'history': 'first run UNDECIDED (per-item rewrite anchored on `.max()`); caught after the rewrite was generalised to max|min|last'}),
 ('C16-2', '/tmp/wt_C16/_out/2', 'C16', 'a block declaring version 3 with 3.3-only content and no 3.1 feature (re-signed by hand)',
  {'C16': 'VIOLATION datalog::SchemaVersion::check_compatibility::ensures.minimal, witness found by the replay crate (underdeclared_block_accepted)'}),
 ('C17-1', '/tmp/wt_C17/_out/1', 'C17', 'a protobuf public key with an algorithm id outside {0, 1}',
  {'C17': 'VIOLATION crypto::PublicKey::from_proto::ensures.rel', 'history': 'first run UNDECIDED (prost getter PublicKey::algorithm() missing from the stubs); caught after it was added'}),
 ('C17-2', '/tmp/wt_C17/_out/2', 'C17', 'same mechanism as C01-1 (independently produced)', {'C17': 'VIOLATION crypto::ed25519::PublicKey::verify_signature::ensures.strict'}),
 ('C03-1', '/tmp/wt_C03/_out/1', 'C03', 'an appended block whose rule derives, in fewer iterations, a fact the authority derives through a 2-step chain and uses negatively',
  {'C03': 'NOT detected (exit 0): the change is inside the fixpoint loop body, which rule A1 abstracts; engine provenance is listed under not_covered', 'C10': 'not affected'}),
 ('C03-2', '/tmp/wt_C03/_out/2', 'C03', '`trusting previous` in block k with the missing fact supplied by block k+1',
  {'C03': 'VIOLATION datalog::origin::TrustedOrigins::from_scopes (ghost assertion of the Previous arm)', 'C04': 'VIOLATION same obligation'}),
 ('C06-1', '/tmp/wt_C06/_out/1', 'C06', 'exactly i64::MIN / -1 (checked_div replaced by an explicit zero test + plain division)',
  {'C06': 'VIOLATION datalog::expression::Binary::evaluate::ensures.div_overflow and the division side condition [i / j]'}),
 ('C06-2', '/tmp/wt_C06/_out/2', 'C06', 'a closure parameter that shadows a bound variable together with an EMPTY set / array / map (shadowing test moved into the per-element binding)',
  {'C06': 'UNDECIDED (exit 2): the change moves the shadowing test into a new helper function (bind_param) for which the unit has no contract: the front end rejects the unit. Deleting the shadowing test in place is a VIOLATION (Expression::evaluate call-pre no_shadow, witness closure_shadowing)', 'history': 'at first evaluate_with_closure was assumed (slice patterns); now under contract via R21 / A4'}),
 ('C10-1', '/tmp/wt_C10/_out/1', 'C10', 'a run that hits a budget (iterations not accumulated on the early-return paths), then a retry with authorize / query',
  {'C10': 'UNDECIDED (exit 2): the mutation restructures the `let res = loop { break .. }` shape the loop contract is attached to (lost anchor)', 'history': 'rebased on HEAD cb1e0aa (3-way apply, clean) and confirmed again'}),
 ('C10-2', '/tmp/wt_C10/_out/2', 'C10', 'a slow but successful check in a block >= 1 (clock read only after a non-matching query)',
  {'C10': 'VIOLATION token::authorizer::Authorizer::authorize_inner::loop7.clock (clock reads != evaluations at the break of the block-check alternatives loop)', 'history': 'first NOT detected (time was an uninterpreted input with no accounting); the original patch stopped applying after fix 09cf9d5 and was rebased by hand (patch.orig.diff keeps the original); caught since ghost counters tie every evaluation to a clock read'}),
 ('C04-1', '/tmp/wt_C04/_out/1', 'C04', 'a `check all` whose body matches nothing in its scoped world (check_match_all returns true vacuously)',
  {'C04': 'UNDECIDED (exit 2): the change removes the local `found` that the loop invariant of Rule::check_match_all names; the same defect written in place (`Ok(found)` -> `Ok(true)`) is a canary of unit engine and is rejected by check_match_all::ensures.decision', 'history': 'first run NOT detected (exit 0, check_match_all was inside the engine oracle); unit engine now puts find_match / check_match_all / query_match* under contract'}),
 ('C04-2', '/tmp/wt_C04/_out/2', 'C04', 'an authorizer-level scope (AuthorizerBuilder::scope) and a policy without its own `trusting` annotation',
  {'C04': 'VIOLATION token::authorizer::Authorizer::authorize_inner (precondition of lemma_tset at the policy query: the trusted set handed to the engine is not the specification one)', 'history': 'first run NOT detected (authorize_inner was an assumed callee); caught after unit authz put the decision composition under contract'}),
 ('C19-1', '/tmp/wt_C19/_out/1', 'C19', 'a token whose last next-key is secp256r1 (seal signature is DER, not 64 bytes): biscuit_sealed_size computed by arithmetic disagrees with what biscuit_serialize_sealed writes',
  {'C19': 'VIOLATION biscuit-capi::lib::biscuit_sealed_size::ensures.size (and arith[sz - SECRET_KEY_LENGTH])', 'history': 'first UNDECIDED (the changed function calls Biscuit::container() / Token::AlreadySealed, for which the capi unit had no stub); two independent sub-agents produced this same change (see C19-4), so the read-only container accessor was added to the assumed Rust API of the unit'}),
 ('C19-2', '/tmp/wt_C19/_out/2', 'C19', 'biscuit_block_context called with block_index == block_count (off-by-one guard) so swap_remove panics across the FFI boundary',
  {'C19': 'VIOLATION biscuit-capi::lib::biscuit_block_context::call-pre(vstd:vec.rs)[biscuit.0.context().swap_remove(block_index)]', 'history': 'function was not in unit capi at first (NOT detected); caught after biscuit_block_context was put under contract'}),
 # ---- round 2 (after units engine / loadb / closures were added) ----
 ('C03-3', '/scratch/t/r2/C03-1', 'C03', 'a rule with an EMPTY body in an appended (or untrusted third-party) block: the join iterator returns the empty origin for the no-predicate leaf, so the derived fact is trusted by every scope',
  {'C03': 'NOT detected (exit 0)', 'C04': 'NOT detected (exit 0): the change is inside CombineIt::next / Rule::apply (Box<dyn Iterator> + closures), which enter the engine unit as oracles'}),
 ('C03-4', '/scratch/t/r2/C03-2', 'C03', 'a fact derived by a trusted rule that is also stated, under another origin, by a later untrusted block, plus a non-monotonic consumer (deny if / reject if / check all)',
  {'C03': 'not in reach (exit 0)', 'C04': 'UNDECIDED (exit 2): the fixpoint loop of World::run_with_limits is under contract in unit engine (closure of the final fact set under one more round), but the change calls a new helper FactSet::contains the unit has no contract for; the same defect written in place (dropping new_facts.insert) is the canary derived-fact-dropped and is rejected by run_with_limits::loop3.this', 'history': 'NOT detected (exit 0) before the fixpoint loop was un-abstracted'}),
 ('C06-3', '/scratch/t/r2/C06-1', 'C06', 'i64::MIN / -1 (checked_div replaced by a zero test and a plain division)',
  {'C06': 'VIOLATION datalog::expression::Binary::evaluate::ensures.div_overflow and ::call-pre[i / j]', 'C09': 'VIOLATION datalog::expression::Binary::evaluate::call-pre[i / j]'}),
 ('C06-4', '/scratch/t/r2/C06-2', 'C06', 'all / any over a MAP with a closure parameter that is already bound (the shadowing test is skipped unless the left operand is a set or an array)',
  {'C06': 'VIOLATION datalog::expression::Expression::evaluate::call-pre(Binary::evaluate_with_closure::requires.no_shadow)'}),
 ('C07-3', '/scratch/t/r2/C07-1', 'C07', 'a version-0 (legacy) third-party block and the path UnverifiedBiscuit::unsafe_deprecated_deserialize(..).verify(root): the legacy external-signature scheme is selected by the block version alone',
  {'C07': 'VIOLATION format::SerializedBiscuit::verify_inner::loop0.prefix', 'C01': 'VIOLATION format::SerializedBiscuit::verify_inner::loop0.prefix'}),
 ('C07-4', '/scratch/t/r2/C07-2', 'C07', 'a third-party block that uses `trusting <key>`, a later first-party block introducing a new key, and a parse from bytes: the third-party key table leaks into the token table',
  {'C07': 'VIOLATION format::SerializedBiscuit::extract_blocks::loop1.tables', 'C12': 'VIOLATION format::SerializedBiscuit::extract_blocks::loop1.tables'}),
 ('C04-3', '/scratch/t/r2/C04-1', 'C04', 'a block n >= 1 carrying a block-level scope and a check without its own `trusting` (block trusted set built from the authority block scopes)',
  {'C04': 'VIOLATION token::authorizer::Authorizer::authorize_inner (precondition of lemma_tset for the block-level trusted set: it is not the specification set of blocks[i + 1].scopes)'}),
 ('C04-4', '/scratch/t/r2/C04-2', 'C04', 'a rule deriving a fact that already exists under another origin and a check / policy / query that trusts only the derived origin (derived facts skipped when present under any origin)',
  {'C04': 'UNDECIDED (exit 2): same place as C03-4 (fixpoint loop of run_with_limits, unit engine); the change reads FactSet::inner through an iterator chain the unit cannot type', 'history': 'NOT detected (exit 0) before the fixpoint loop was un-abstracted'}),
 # ---- round 3 (against HEAD cb1e0aa) ----
 ('C19-3', '/scratch/t/r3/C19-1', 'C19', 'a block_builder_add_check call that fails to parse, followed by any other call on the same handle (take() instead of clone(): the handle is left empty)',
  {'C19': 'VIOLATION biscuit-capi::lib::BlockBuilder::add_check::ensures.handle (the handle invariant added with fix 4333c7b)'}),
 ('C19-4', '/scratch/t/r3/C19-2', 'C19', 'biscuit_sealed_size computed as serialized_size() + 32 while the last block was appended with a secp256r1 key pair',
  {'C19': 'VIOLATION biscuit-capi::lib::biscuit_sealed_size::ensures.size and ::arith[sz + 32]', 'history': 'first UNDECIDED (Biscuit::container() not stubbed); same idea as C19-1 from another sub-agent'}),
 ('C16-3', '/scratch/t/r3/C16-1', 'C16', 'a block declaring version 3 with 3.3-only content and no 3.1 feature (the 3.3 arm of the `version < 3.1` case dropped in a flattened cascade)',
  {'C16': 'VIOLATION datalog::SchemaVersion::check_compatibility::ensures.minimal, witness from verif-replay underdeclared_block_accepted'}),
 ('C16-4', '/scratch/t/r3/C16-2', 'C16', 'authority on scheme 0, then a block needing scheme 1, then a plain block added with append (max() -> last() over the previous versions, authority comes last on that path)',
  {'C16': 'VIOLATION format::block_signature_version::ensures.otherwise'}),
 ('C08-3', '/scratch/t/r3/C08-1', 'C08', 'third_party_request on a sealed token through UnverifiedBiscuit (sealed check moved from ThirdPartyRequest::from_container to Biscuit::third_party_request only)',
  {'C08': 'VIOLATION token::third_party::ThirdPartyRequest::from_container::ensures.sealed'}),
 ('C08-4', '/scratch/t/r3/C08-2', 'C08', 'a sealed token cut down to its authority block: the seal signature is not verified when there is no block after the authority',
  {'C08': 'VIOLATION format::SerializedBiscuit::verify_inner::ensures.chain', 'C01': 'VIOLATION format::SerializedBiscuit::verify_inner::ensures.chain'}),
 ('C02-3', '/scratch/t/r3/C02-1', 'C02', 'sealing a token whose LAST block is a third-party block (seal payload built from the block payload helper, so the external signature lands in it)',
  {'C02': 'VIOLATION crypto::generate_seal_signature_payload_v0::ensures.layout', 'C08': 'VIOLATION crypto::generate_seal_signature_payload_v0::ensures.layout'}),
 ('C02-4', '/scratch/t/r3/C02-2', 'C02', 'an unsealed token with two or more appended blocks whose first and last next keys use different algorithms (proof secret parsed with the first block algorithm)',
  {'C02': 'UNDECIDED (exit 2): the change removes the local next_key_algorithm that the loop invariant of SerializedBiscuit::deserialize names (same shape as C02-2 of round 1)', 'C01': 'UNDECIDED (same unit)'}),
 ('C12-3', '/scratch/t/r3/C12-1', 'C12', 'an UnverifiedBiscuit append of a first-party block that introduces a new public key but no new string (table merge skipped when the block declares no symbol)',
  {'C12': 'VIOLATION token::unverified::UnverifiedBiscuit::append_with_keypair (the proof of the table invariant)', 'history': 'first UNDECIDED (SymbolTable::current_offset was not in the unit); the one-line accessor was put under contract'}),
 ('C12-4', '/scratch/t/r3/C12-2', 'C12', 'a signed token whose appended first-party block redeclares a known string (reload interns the strings instead of refusing the overlap)',
  {'C12': 'VIOLATION format::SerializedBiscuit::extract_blocks::loop2.syms (and @entry)'}),
 ('C17-3', '/scratch/t/r3/C17-1', 'C17', 'a protobuf public key whose algorithm tag is outside {0, 1} with 32 valid ed25519 bytes (prost getter falls back to the default variant)',
  {'C17': 'VIOLATION crypto::PublicKey::from_proto::ensures.rel', 'history': 'first UNDECIDED (the conversion schema Algorithm -> builder Algorithm had no contract in unit chain); same defect class as C17-1 of round 1'}),
 ('C17-4', '/scratch/t/r3/C17-2', 'C17', 'a small-order ed25519 public key with a crafted signature (verify_strict -> verify)',
  {'C17': 'VIOLATION crypto::ed25519::PublicKey::verify_signature::ensures.strict', 'C01': 'same obligation', 'C15': 'same obligation'}),
 # ---- round 4 (against HEAD cb1e0aa) ----
 ('C09-3', '/scratch/t/r4/C09-1', 'C09', 'i64::MIN / -1 in a check of an appended block (checked_div replaced by a zero test and a plain division)',
  {'C09': 'VIOLATION datalog::expression::Binary::evaluate::call-pre[i / j]'}),
 ('C09-4', '/scratch/t/r4/C09-2', 'C09', 'a snapshot with zero blocks restored with from_snapshot (guard removed: blocks = Some(vec![])) and then authorize(): the decision procedure indexes blocks[0]',
  {'C09': 'VIOLATION token::authorizer::snapshot::Authorizer::from_snapshot::ensures.blocks_nonempty', 'history': 'first NOT detected (exit 0): authorize_inner carried the precondition `blocks is Some ==> len >= 1`, established by build_inner only; from_snapshot was outside the units. Now under contract (unit loadb)'}),
 ('C01-3', '/scratch/t/r4/C01-1', 'C01', 'a small-order ed25519 next key announced by a holder-signed block, then any rewriting of later blocks (verify_strict -> verify)',
  {'C01': 'VIOLATION crypto::ed25519::PublicKey::verify_signature::ensures.strict'}),
 ('C01-4', '/scratch/t/r4/C01-2', 'C01', 'a version-0 third-party block through UnverifiedBiscuit::unsafe_deprecated_deserialize(..).verify(..) moved from another token',
  {'C01': 'VIOLATION format::SerializedBiscuit::verify_inner::loop0.prefix', 'C07': 'same obligation'}),
 ('C04-5', '/scratch/t/r4/C04-1', 'C04', 'a `reject if` with two alternatives in a block n >= 1 where an earlier alternative matches and the last one does not (early break removed)',
  {'C04': 'VIOLATION token::authorizer::Authorizer::authorize_inner::loop8.all_reject / loop8.flag'}),
 ('C04-6', '/scratch/t/r4/C04-2', 'C04', 'the same fact derived in a later round under a smaller origin than the one already stored (FactSet::merge prunes with the inclusion test reversed)',
  {'C04': 'UNDECIDED (exit 2): unit factset puts the real FactSet::merge under contract (union, origin by origin); the filter / any / collect chain of the change is outside the verifier', 'history': 'first NOT detected (exit 0): FactSet::merge was only an assumed contract of unit engine; unit factset was added'}),
 ('C10-3', '/scratch/t/r4/C10-1', 'C10', 'a run that ends in a run-limit error, then a second authorize / query on the same authorizer (rounds of the failed run not added to the counter)',
  {'C10': 'VIOLATION datalog::World::run_with_limits::ensures.error_accounted', 'history': 'first NOT detected (exit 0): the contract only said the counter never decreases; the clause "a run-limit error has counted at least one round" was added'}),
 ('C10-4', '/scratch/t/r4/C10-2', 'C10', 'an overrun in the LAST query of the last block (time check moved in front of the evaluation)',
  {'C10': 'VIOLATION token::authorizer::Authorizer::authorize_inner::assert[reads + 1 == evals]', 'history': 'first NOT detected (exit 0): the ghost counters only required as many reads as evaluations; evaluation and clock read must now strictly alternate, evaluation first'}),
 ('C03-5', '/scratch/t/r4/C03-1', 'C03', 'a `trusting previous` scope in block n and a block at position n + 1 (range 0..=current_block + 1)',
  {'C03': 'VIOLATION datalog::origin::TrustedOrigins::from_scopes (scope step assertion)'}),
 ('C03-6', '/scratch/t/r4/C03-2', 'C03', 'an authorizer restored from a snapshot with a trusted third-party block followed by another block (key -> block map built with i + 1)',
  {'C03': 'VIOLATION token::authorizer::snapshot::Authorizer::from_snapshot (push_rel step of the key-map invariant)', 'history': 'first NOT detected (exit 0): from_snapshot was outside the units'}),
 ('C15-3', '/scratch/t/r4/C15-1', 'C15', 'an ed25519 block signature with appended bytes (only the first 64 bytes are verified): a verifying variant with another revocation id',
  {'C15': 'VIOLATION crypto::ed25519::PublicKey::verify_signature::ensures.strict'}),
 ('C15-4', '/scratch/t/r4/C15-2', 'C15', 'UnverifiedBiscuit::append_third_party reuses the current proof key as the next key',
  {'C15': 'VIOLATION token::unverified::UnverifiedBiscuit::append_third_party::ensures.fresh_key (the RNG-sourced next key clause added in this phase)'}),
 # ---- round 5 (sub-agents asked to avoid the obvious candidates; against HEAD cb1e0aa, confirmed on 7c6e353) ----
 ('C02-5', '/scratch/t/r5/C02-1', 'C02', 'sealing right after a third-party block (seal payload built with the v0 block payload helper)',
  {'C02': 'VIOLATION crypto::generate_seal_signature_payload_v0::ensures.layout'}),
 ('C02-6', '/scratch/t/r5/C02-2', 'C02', 'an unsealed token whose LAST block is third-party with a next key of another algorithm than the previous first-party one (algorithm tracking skipped by an early `continue`)',
  {'C02': 'UNDECIDED (exit 2): the restructured loop uses `continue`, which this Verus does not accept in for-loops', 'C01': 'UNDECIDED (same unit)'}),
 ('C07-5', '/scratch/t/r5/C07-1', 'C07', 'two third-party blocks by one signer plus another key named in a scope afterwards (key id taken from current_offset() before insert)',
  {'C07': 'VIOLATION token::builder::authorizer::AuthorizerBuilder::build_inner (key index assertion of the key-map step)', 'history': 'first UNDECIDED (PublicKeys::current_offset had no contract in unit loadb); the one-line accessor was put under contract'}),
 ('C07-6', '/scratch/t/r5/C07-2', 'C07', 'a third-party block with a non-empty key table, a later first-party block naming keys, and a wire round trip (third-party keys added to the token table at parse time)',
  {'C07': 'VIOLATION format::SerializedBiscuit::extract_blocks::loop1.tables', 'C12': 'same obligations'}),
 ('C16-5', '/scratch/t/r5/C16-1', 'C16', 'old-scheme authority, then a block needing the chained scheme, then a plain block added with Biscuit::append (max() -> last())',
  {'C16': 'VIOLATION format::block_signature_version::ensures.otherwise'}),
 ('C16-6', '/scratch/t/r5/C16-2', 'C16', 'a block declaring version 3 with 3.3-only content (the 3.3 arm under `version < 3.1` removed as a duplicate)',
  {'C16': 'VIOLATION datalog::SchemaVersion::check_compatibility::ensures.minimal, with witness'}),
 ('C06-5', '/scratch/t/r5/C06-1', 'C06', 'i64::MIN / -1',
  {'C06': 'VIOLATION datalog::expression::Binary::evaluate::ensures.div_overflow and ::call-pre[i / j]'}),
 ('C06-6', '/scratch/t/r5/C06-2', 'C06', 'a shadowing closure parameter over an EMPTY collection (shadowing test moved into a new helper bind_param called per element)',
  {'C06': 'UNDECIDED (exit 2): same refactoring as C06-2 of round 1, from another sub-agent: the new helper function has no contract in the unit'}),
 ('C12-5', '/scratch/t/r5/C12-1', 'C12', 'an UnverifiedBiscuit append of a block with a `trusting <key>` scope (public-key merge removed, only strings merged)',
  {'C12': 'VIOLATION token::unverified::UnverifiedBiscuit::append_with_keypair (proof of the table invariant)'}),
 ('C12-6', '/scratch/t/r5/C12-2', 'C12', 'a first-party block that declares keys but no new string, after a round trip (merge skipped when the block has no symbols)',
  {'C12': 'VIOLATION format::SerializedBiscuit::extract_blocks (key-table lemma precondition)'}),
 ('C08-5', '/scratch/t/r5/C08-1', 'C08', 'third_party_request on a sealed token through UnverifiedBiscuit (sealed check moved to the verified caller only)',
  {'C08': 'VIOLATION token::third_party::ThirdPartyRequest::from_container::ensures.sealed'}),
 ('C08-6', '/scratch/t/r5/C08-2', 'C08', 'a sealed token with all blocks removed (seal verification folded into a peekable block loop that never runs)',
  {'C08': 'UNDECIDED (exit 2): the for loop the invariants are attached to became a `while let` over a peekable iterator (lost anchor)'}),
 # ---- round 6 (avoid-the-obvious instruction; patches against HEAD 7c6e353, confirmed on b6b47ba) ----
 ('C04-7', '/scratch/t/r6/C04-1', 'C04', 'a block-level public-key scope, a rule in that block and a key whose index differs between the token and the authorizer tables (block default trust computed before the scopes are translated)',
  {'C04': 'VIOLATION token::builder::authorizer::load_and_translate_block (the block trusted set is not the specification set of the translated scopes)'}),
 ('C04-8', '/scratch/t/r6/C04-2', 'C04', 'a matching deny policy and a failing check in a block >= 1 (early return before the block checks: the failed-check list is truncated)',
  {'C04': 'VIOLATION token::authorizer::Authorizer::authorize_inner::ensures.failed_list', 'history': 'first NOT detected (exit 0): only the decision and the policy index were under contract; completeness of the failed-check list (every failing check, with origin and index) was then added to the contract'}),
 ('C19-5', '/scratch/t/r6/C19-1', 'C19', 'sealed size by arithmetic with a secp256r1 last key (third sub-agent with this idea)',
  {'C19': 'VIOLATION biscuit-capi::lib::biscuit_sealed_size::ensures.size'}),
 ('C19-6', '/scratch/t/r6/C19-2', 'C19', 'error_check_rule with an out-of-range index after a failed authorization (update_last_error called while LAST_ERROR is borrowed: RefCell panic, abort)',
  {'C19': 'NOT detected (exit 0): the error_* accessors are thread_local / RefCell / closure code outside the unit (listed under not_covered)'}),
 ('C10-5', '/scratch/t/r6/C10-1', 'C10', 'a run that fails on a budget, then a second authorize / query on the same authorizer (execution_time set before the error is propagated: the failed run is taken as cached)',
  {'C10': 'VIOLATION token::authorizer::Authorizer::run::ensures.error_not_cached', 'history': 'first NOT detected (exit 0): the contract of run said nothing about the cache on the error path; clause added'}),
 ('C10-6', '/scratch/t/r6/C10-2', 'C10', 'the matching policy is the one that crosses the time budget (break moved in front of the time check)',
  {'C10': 'VIOLATION token::authorizer::Authorizer::authorize_inner::assert[reads == evals] / loop6.clock@entry (clock accounting)'}),
 ('C17-5', '/scratch/t/r6/C17-1', 'C17', 'protobuf key with an unknown algorithm tag (prost getter default); third sub-agent with this idea',
  {'C17': 'VIOLATION crypto::PublicKey::from_proto::ensures.rel'}),
 ('C17-6', '/scratch/t/r6/C17-2', 'C17', 'secp256r1 private keys of 24..=31 bytes accepted and zero-padded (SigningKey::from_slice instead of the length guard + from_bytes)',
  {'C17': 'UNDECIDED (exit 2): p256 SigningKey::from_slice has no contract in specs/dep_crypto.rs'}),
 ('C03-7', '/scratch/t/r6/C03-1', 'C03', 'a fact stated by an appended block that a trusted rule also derives, read by deny if / reject if (derived facts skipped when present under any origin; new helper FactSet::contains)',
  {'C03': 'UNDECIDED (exit 2): fourth sub-agent with this optimisation; the fixpoint loop is under contract but the new helper is not'}),
 ('C03-8', '/scratch/t/r6/C03-2', 'C03', 'a token padded to 63 / 64 / 65 blocks (origin sets get a 64-bit mask used for the trust test, the shift wraps)',
  {'C03': 'UNDECIDED (exit 2): Origin gets a new field and a new helper origin_bit the unit has no contract for'}),
 ('C09-5', '/scratch/t/r6/C09-1', 'C09', 'a hand-written block whose check query head has a variable the body does not bind (Rule::apply indexes the bindings instead of get)',
  {'C09': 'NOT detected (exit 0): Rule::apply is closure code inside the join (oracle)'}),
 ('C09-6', '/scratch/t/r6/C09-2', 'C09', 'a snapshot whose generated fact hides an unknown symbol inside an array / map (index-only validation replaces Fact::convert_from), then dump()',
  {'C09': 'UNDECIDED (exit 2): the validation line of from_snapshot that a per-item rewrite is anchored on was replaced'}),
]
only = sys.argv[1:] 
for sid, src, prop, needs, det in SEEDS:
    if only and sid not in only:
        continue
    dst = '/verif/seeded/' + sid
    cj = os.path.join(src, 'confirm.json')
    if not os.path.exists(cj):
        mj = os.path.join(dst, 'meta.json')
        if os.path.exists(mj):       # already recorded (scratch worktree removed): refresh what the checks say
            meta = json.load(open(mj))
            if meta.get('checks') != det or meta.get('needs_to_manifest') != needs:
                meta['checks'] = det
                meta['needs_to_manifest'] = needs
                json.dump(meta, open(mj, 'w'), indent=1)
                print('updated', sid)
            continue
        print('skip (not confirmed yet):', sid)
        continue
    conf = json.load(open(cj))
    ok = conf.get('applies') and conf['suite_exit_with_change'] == 0 and conf['demo_exit_with_change'] != 0 and conf['demo_exit_without_change'] == 0
    if not ok:
        print('NOT CONFIRMED, not recorded:', sid, conf)
        continue
    os.makedirs(dst, exist_ok=True)
    shutil.copy(os.path.join(src, 'patch.diff'), dst)
    shutil.copy(os.path.join(src, 'demo.rs'), os.path.join(dst, 'demo.rs'))
    if os.path.exists(os.path.join(src, 'notes.md')):
        shutil.copy(os.path.join(src, 'notes.md'), dst)
    meta = {'seed': sid, 'breaks_property': prop, 'needs_to_manifest': needs,
            'produced_by': 'independent sub-agent given only the property text and a scratch worktree of /repo',
            'confirmed_by_me': {'what_i_ran': 'tools/confirm_mutant.sh in the scratch worktree /tmp/wt_confirm: cargo test --workspace --no-fail-fast --offline with the patch (retry once for the 1 ms-limit tests); '
                                              'cargo test -p biscuit-auth --test verif_demo_x with and without the patch', **conf},
            'checks': det,
            'how_to_rerun': 'git -C /repo apply /verif/seeded/%s/patch.diff && (cd /verif && ./check %s); git -C /repo checkout -- .' % (sid, prop)}
    json.dump(meta, open(os.path.join(dst, 'meta.json'), 'w'), indent=1)
    print('recorded', sid)
