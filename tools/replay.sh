#!/bin/sh
# Build the replay crate against the current /repo tree (offline) and run one witness search.
ROOT="$(cd "$(dirname "$0")/.." && pwd)"
cd "$ROOT/replay" || exit 2
export CARGO_TARGET_DIR="$ROOT/work/replay-target"
export CARGO_NET_OFFLINE=true
cp /repo/Cargo.lock Cargo.lock 2>/dev/null
cargo build --offline -q 2>/dev/null || { echo "BUILD-FAILED"; exit 2; }
"$CARGO_TARGET_DIR/debug/verif-replay" "$@"
