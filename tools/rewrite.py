"""Mechanical rewrites R1..R10 applied to extracted item text (see DESIGN.md 3.2).

Every function takes the item text and returns (new_text, count). All searches are made
on the masked text (comments / literals blanked) so that nothing inside a string or a
comment is touched, except R1/R4 which act on literal regions on purpose.
"""
import re
from rustscan import mask, match_close, ScanError


def _decode_bytes(lit):
    # lit: text between the quotes of b"..."
    out = []
    i = 0
    while i < len(lit):
        c = lit[i]
        if c == '\\':
            n = lit[i + 1]
            if n == 'x':
                out.append(int(lit[i + 2:i + 4], 16))
                i += 4
                continue
            mp = {'0': 0, 'n': 10, 'r': 13, 't': 9, '\\': 92, '"': 34, "'": 39}
            if n == '\n':
                # line continuation
                i += 2
                while i < len(lit) and lit[i] in ' \t\n\r':
                    i += 1
                continue
            out.append(mp[n])
            i += 2
            continue
        out.extend(c.encode('utf-8'))
        i += 1
    return out


def r1_byte_strings(text):
    m, regions = mask(text)
    cnt = 0
    res = []
    last = 0
    for s, e, kind in regions:
        if kind != 'bstr':
            continue
        bs = _decode_bytes(text[s + 2:e - 1])
        if bs:
            arr = '[' + ', '.join(('%du8' % b) if i == 0 else str(b) for i, b in enumerate(bs)) + ']'
        else:
            arr = '[0u8; 0]'
        res.append(text[last:s])
        res.append(arr)
        last = e
        cnt += 1
    res.append(text[last:])
    return ''.join(res), cnt


def r2_le_bytes(text):
    m, _ = mask(text)
    cnt = len(re.findall(r'\.to_(?:le|be)_bytes\(\)', m))
    out = []
    last = 0
    for mo in re.finditer(r'\.to_(le|be)_bytes\(\)', m):
        out.append(text[last:mo.start()])
        out.append('.verif_to_%s_bytes()' % mo.group(1))
        last = mo.end()
    out.append(text[last:])
    return ''.join(out), cnt


_COMB = r'(?:map_err|map|and_then|ok_or_else|or_else|unwrap_or_else|filter_map)'


def r3_eta(text):
    """(a) a constructor used as a function value is eta-expanded, and (b) a closure whose body
    is a bare constructor application over variables / fields / `.len()` receives the
    postcondition `result == body` (an annotation: Verus does not infer closure results)."""
    m, _ = mask(text)
    pat = re.compile(r'\.(' + _COMB + r')\(\s*((?:\w+::)*[A-Z]\w*)\s*\)')
    cnt = 0
    out = []
    last = 0
    for mo in pat.finditer(m):
        path = mo.group(2)
        out.append(text[last:mo.start()])
        out.append('.%s(|verif_x| -> (verif_r: _) ensures equal(verif_r, %s(verif_x)) { %s(verif_x) })'
                   % (mo.group(1), path, path))
        last = mo.end()
        cnt += 1
    out.append(text[last:])
    text = ''.join(out)
    # (b)
    while True:
        m, _ = mask(text)
        found = None
        for mo in re.finditer(r'\(\s*\|\s*(\w+)\s*\|\s*', m):
            op = mo.start()
            try:
                cl = match_close(m, op)
            except ScanError:
                continue
            body = text[mo.end():cl].strip()
            mb = m[mo.end():cl].strip()
            if body != mb:
                continue   # literals / comments inside
            if not re.match(r'^(?:\w+::)*[A-Z]\w*\((?:[\w\.\s,&\*]|\.len\(\))*\)$', body):
                continue
            found = (mo.end(), cl, body)
            break
        if not found:
            break
        a, b, body = found
        text = text[:a] + '-> (verif_r: _) ensures equal(verif_r, %s) { %s }' % (body, body) + text[b:]
        cnt += 1
    return text, cnt


def r4_messages(text):
    """format!(...) -> verif_msg();  "lit".to_string() / .to_owned() / String::from("lit") /
    "lit".into() -> verif_msg()."""
    cnt = 0
    # format!( ... )
    while True:
        m, regions = mask(text)
        mo = re.search(r'\bformat!\s*\(', m)
        if not mo:
            break
        op = m.index('(', mo.start())
        cl = match_close(m, op)
        text = text[:mo.start()] + 'verif_msg()' + text[cl + 1:]
        cnt += 1
    # "lit".to_string() etc.
    while True:
        m, regions = mask(text)
        done = True
        for s, e, kind in regions:
            if kind not in ('str', 'rstr'):
                continue
            mo = re.match(r'\s*\.\s*(to_string|to_owned|into)\s*\(\s*\)', m[e:])
            if mo:
                text = text[:s] + 'verif_msg()' + text[e + mo.end():]
                cnt += 1
                done = False
                break
            # String::from("lit")
            pre = re.search(r'String::from\(\s*$', m[:s])
            if pre and m[e:].lstrip().startswith(')'):
                close = e + m[e:].index(')')
                text = text[:pre.start()] + 'verif_msg()' + text[close + 1:]
                cnt += 1
                done = False
                break
        if done:
            break
    return text, cnt


def r7_attrs(text):
    """Remove outer attributes `#[...]` and doc comments from the item text. Of a
    `#[derive(..)]` list, `Clone, Copy` are kept when `Copy` is present
    (Verus gives the derived Clone of a Copy type its specification); every other derive
    (Debug, PartialEq, Eq, Hash, PartialOrd, Ord, Error, prost, serde) is dropped."""
    m, regions = mask(text)
    cnt = 0
    spans = []
    for s, e, kind in regions:
        if kind == 'lc' and (text.startswith('///', s) or text.startswith('//!', s)):
            spans.append((s, e, ''))
    k = 0
    while True:
        k = m.find('#[', k)
        if k < 0:
            break
        e = match_close(m, k + 1)
        attr = m[k:e + 1]
        repl = ''
        mo = re.match(r'#\[\s*derive\s*\((.*)\)\s*\]$', attr, re.S)
        if mo:
            names = [x.strip() for x in mo.group(1).split(',') if x.strip()]
            keep = []
            if 'Copy' in names:
                keep += [n for n in names if n in ('Clone', 'Copy')]
            if keep:
                repl = '#[derive(%s)]' % ', '.join(keep)
        spans.append((k, e + 1, repl))
        k = e + 1
    spans.sort()
    out = []
    last = 0
    for s, e, repl in spans:
        if s < last:
            continue
        out.append(text[last:s])
        out.append(repl)
        last = e
        cnt += 1
    out.append(text[last:])
    return ''.join(out), cnt


def r10_iter_idioms(text):
    """X.iter().any(c) / .all(c) / .position(c) -> verif_any(&X, c) / verif_all(&X, c) / verif_position(&X, c) where X is a place
    expression (identifiers and field accesses, possibly spread over several lines)."""
    cnt = 0
    while True:
        m, _ = mask(text)
        mo = re.search(r'((?:[A-Za-z_]\w*)(?:\s*\.\s*\w+)*?)\s*\.\s*iter\(\)\s*\.\s*(any|all|position)\s*\(', m)
        if not mo:
            break
        op = mo.end() - 1
        cl = match_close(m, op)
        recv = re.sub(r'\s+', '', mo.group(1))
        arg = text[op + 1:cl]
        text = text[:mo.start()] + 'verif_%s(&%s, %s)' % (mo.group(2), recv, arg.strip()) + text[cl + 1:]
        cnt += 1
    return text, cnt


def r9_raw_parts(text):
    """std::slice::from_raw_parts[_mut](p, n) -> verif_raw_parts[_mut](p, n); `unsafe extern "C"` / `extern "C"`
    qualifiers are dropped (no run-time meaning for the verified text)."""
    m, _ = mask(text)
    cnt = 0
    out = []
    last = 0
    for mo in re.finditer(r'(?:std::)?slice::from_raw_parts(_mut)?\b', m):
        out.append(text[last:mo.start()])
        out.append('verif_raw_parts' + (mo.group(1) or ''))
        last = mo.end()
        cnt += 1
    out.append(text[last:])
    text = ''.join(out)
    # qualifiers: `unsafe extern "C" fn` (the ABI string is a literal, hence searched on the real text)
    text2, c2 = re.subn(r'\b(?:unsafe\s+)?extern\s+"C"\s+fn\b', 'fn', text)
    text3, c3 = re.subn(r'\bunsafe\s+fn\b', 'fn', text2)
    return text3, cnt + c2 + c3


def r17_full_range(text):
    """`&E[..]` -> `E.as_slice()` for a place / call-chain expression E (same bytes, no copy)."""
    cnt = 0
    while True:
        m, _ = mask(text)
        mo = re.search(r'&\s*([\w\.\s\(\)]+?)\[\s*\.\.\s*\]', m)
        if not mo:
            break
        recv = text[mo.start(1):mo.end(1)].rstrip()
        text = text[:mo.start()] + recv + '.as_slice()' + text[mo.end():]
        cnt += 1
    return text, cnt


def r19_enumerate(text):
    """`['l:] for (I, X) in RECV.iter().enumerate() { BODY }` ->
       `{ let mut I = 0; ['l:] while I < RECV.len() { let X = &RECV[I]; BODY I += 1; } }`
    (same iteration order and bindings; refused when BODY contains `continue`)."""
    cnt = 0
    while True:
        m, _ = mask(text)
        mo = re.search(r"(?:('\w+)\s*:\s*)?\bfor\s*\(\s*(\w+)\s*,\s*(\w+)\s*\)\s+in\s+([\w\.\s\(\)\[\]]+?)\s*\.\s*iter\(\)\s*\.\s*enumerate\(\)\s*\{", m)
        if not mo:
            break
        op = mo.end() - 1
        cl = match_close(m, op)
        if re.search(r'\bcontinue\b', m[op:cl]):
            raise ScanError('R19: loop body contains `continue`')
        label, i, x, recv = mo.group(1), mo.group(2), mo.group(3), re.sub(r'\s+', '', mo.group(4))
        body = text[op + 1:cl]
        new = '{ let mut %s = 0; %swhile %s < %s.len() { let %s = &%s[%s];%s %s += 1; } }' % (
            i, (label + ': ') if label else '', i, recv, x, recv, i, body, i)
        text = text[:mo.start()] + new + text[cl + 1:]
        cnt += 1
    return text, cnt


def r20_iter_while(text):
    """`for X in RECV.iter() { BODY }` -> `{ let mut verif_kN = 0; while verif_kN < RECV.len() { let X = &RECV[verif_kN]; BODY
    verif_kN += 1; } }` (Verus gives `for` loops with `break` no exit contract; same order and bindings; refused when BODY
    contains `continue`)."""
    cnt = 0
    while True:
        m, _ = mask(text)
        mo = re.search(r"\bfor\s+(\w+)\s+in\s+([\w\.\s\(\)\[\]]+?)\s*\.\s*iter\(\)\s*\{", m)
        if not mo:
            break
        op = mo.end() - 1
        cl = match_close(m, op)
        if re.search(r'\bcontinue\b', m[op:cl]):
            raise ScanError('R20: loop body contains `continue`')
        x, recv = mo.group(1), re.sub(r'\s+', '', mo.group(2))
        k = 'verif_k%d' % cnt
        body = text[op + 1:cl]
        new = '{ let mut %s = 0; while %s < %s.len() { let %s = &%s[%s];%s %s += 1; } }' % (k, k, recv, x, recv, k, body, k)
        text = text[:mo.start()] + new + text[cl + 1:]
        cnt += 1
    return text, cnt


def r21_slice_patterns(text):
    """R21 (opt-in): `match (.., X) { (.., []) => A, (.., [p]) => B, .. }` with X a slice becomes
    `match (.., verif_slice1(X)) { (.., VerifSlice1::Empty) => A, (.., VerifSlice1::One(p)) => B, .. }`
    (Verus has no slice patterns). `verif_slice1` returns Empty for length 0, One(&X[0]) for length 1 and
    Many otherwise, so every arm is selected for exactly the same inputs with the same binding."""
    n = 0
    m, _ = mask(text)
    out = text
    for mm in reversed(list(re.finditer(r'\bmatch\s*\(([^(){}]*?),\s*(\w+)\)\s*\{', m))):
        ob = mm.end() - 1
        cb = match_close(m, ob)
        body = out[ob:cb + 1]
        if not re.search(r',\s*\[\s*\w*\s*\]\s*\)\s*=>', body):
            continue
        body2, c1 = re.subn(r',(\s*)\[\s*\]\s*\)(\s*)=>', r',\1VerifSlice1::Empty)\2=>', body)
        body2, c2 = re.subn(r',(\s*)\[\s*(\w+)\s*\]\s*\)(\s*)=>', r',\1VerifSlice1::One(\2))\3=>', body2)
        head = out[mm.start():ob]
        head2 = re.sub(r',\s*(\w+)\)\s*$', lambda k: ', verif_slice1(%s)) ' % k.group(1), head)
        out = out[:mm.start()] + head2 + body2 + out[cb + 1:]
        n += c1 + c2
    return out, n


def r11_prost_paths(text):
    m, _ = mask(text)
    cnt = 0
    out = []
    last = 0
    for mo in re.finditer(r'::prost::alloc::', m):
        out.append(text[last:mo.start()])
        out.append('::std::')
        last = mo.end()
        cnt += 1
    out.append(text[last:])
    return ''.join(out), cnt


def r12_visibility(text):
    """pub(crate) / pub(super) / pub(in path) -> pub (visibility has no run-time meaning; Verus
    treats a datatype with a restricted field as opaque in public contracts)."""
    m, _ = mask(text)
    cnt = 0
    out = []
    last = 0
    for mo in re.finditer(r'\bpub\s*\(\s*(?:crate|super|self|in\s+[\w:]+)\s*\)', m):
        out.append(text[last:mo.start()])
        out.append('pub')
        last = mo.end()
        cnt += 1
    out.append(text[last:])
    return ''.join(out), cnt


def r13_try_into(text):
    m, _ = mask(text)
    cnt = 0
    out = []
    last = 0
    for mo in re.finditer(r'\.try_into\(\)', m):
        out.append(text[last:mo.start()])
        out.append('.verif_try_into()')
        last = mo.end()
        cnt += 1
    out.append(text[last:])
    return ''.join(out), cnt


def r16_into(text):
    m, _ = mask(text)
    cnt = 0
    out = []
    last = 0
    for mo in re.finditer(r'\.into\(\)', m):
        out.append(text[last:mo.start()])
        out.append('.verif_into()')
        last = mo.end()
        cnt += 1
    out.append(text[last:])
    return ''.join(out), cnt


def r14_closure_wildcards(text):
    """closure parameter `_` -> a named, unused parameter (Verus only accepts variables)."""
    m, _ = mask(text)
    cnt = 0
    out = []
    last = 0
    for mo in re.finditer(r'\|\s*_\s*\|', m):
        out.append(text[last:mo.start()])
        out.append('|_verif_u|')
        last = mo.end()
        cnt += 1
    out.append(text[last:])
    return ''.join(out), cnt


def r12b_struct_fields(text):
    """private fields of an extracted struct become `pub` (same reason as R12)."""
    m, _ = mask(text)
    mo = re.search(r'\bstruct\s+\w+\s*(?:<[^>{(]*>)?\s*([({])', m)
    if not mo:
        return text, 0
    op = mo.end(1) - 1
    cl = match_close(m, op)
    inner_m = m[op + 1:cl]
    inner = text[op + 1:cl]
    # split fields at depth-0 commas
    parts = []
    depth = 0
    start = 0
    for i, ch in enumerate(inner_m):
        if ch in '([{<':
            depth += 1
        elif ch in ')]}>':
            if ch == '>' and i > 0 and inner_m[i - 1] == '-':
                continue
            depth -= 1
        elif ch == ',' and depth == 0:
            parts.append((start, i))
            start = i + 1
    parts.append((start, len(inner_m)))
    cnt = 0
    out = []
    last = 0
    for a, b in parts:
        seg_m = inner_m[a:b]
        st = len(seg_m) - len(seg_m.lstrip())
        body = seg_m.strip()
        if not body:
            continue
        # skip attributes (already removed by R7 normally) and fields that are already pub
        if body.startswith('pub'):
            continue
        out.append(inner[last:a + st])
        out.append('pub ')
        last = a + st
        cnt += 1
    out.append(inner[last:])
    return text[:op + 1] + ''.join(out) + text[cl:], cnt


def r18_break_value(text):
    """`let X = loop { .. break V; .. };` -> `let X; loop { .. { X = V; break; } .. };`
    (Verus has no `break` with a value; the two forms are equivalent in Rust)."""
    cnt = 0
    while True:
        m, _ = mask(text)
        mo = re.search(r'\blet\s+(\w+)\s*=\s*loop\s*\{', m)
        if not mo:
            break
        var = mo.group(1)
        op = mo.end() - 1
        cl = match_close(m, op)
        body = text[op:cl + 1]
        bm = m[op:cl + 1]
        # nested loops' spans (breaks inside them are theirs)
        nested = []
        for lm in re.finditer(r'\b(for|while|loop)\b', bm[1:]):
            k = lm.end() + 1
            depth = 0
            while k < len(bm) and not (bm[k] == '{' and depth == 0):
                if bm[k] in '([':
                    depth += 1
                elif bm[k] in ')]':
                    depth -= 1
                k += 1
            if k < len(bm):
                nested.append((k, match_close(bm, k)))
        out = []
        last = 0
        for bmo in re.finditer(r'\bbreak\b', bm):
            pos = bmo.start()
            if any(a < pos < b for a, b in nested):
                continue
            # expression up to the ';' at depth 0
            k = bmo.end()
            depth = 0
            while k < len(bm):
                ch = bm[k]
                if ch in '([{':
                    depth += 1
                elif ch in ')]}':
                    depth -= 1
                elif ch == ';' and depth == 0:
                    break
                k += 1
            expr = body[bmo.end():k].strip()
            if not expr:
                continue
            out.append(body[last:pos])
            out.append('{ %s = %s; break; }' % (var, expr))
            last = k + 1
        out.append(body[last:])
        text = text[:mo.start()] + 'let %s;\n        loop ' % var + ''.join(out) + text[cl + 1:]
        cnt += 1
    return text, cnt


ALL = [
    ('R18', r18_break_value),
    ('R12', r12_visibility),
    ('R13', r13_try_into),
    ('R14', r14_closure_wildcards),
    ('R16', r16_into),
    ('R7', r7_attrs),
    ('R11', r11_prost_paths),
    ('R1', r1_byte_strings),
    ('R2', r2_le_bytes),
    ('R3', r3_eta),
    ('R4', r4_messages),
    ('R12b', r12b_struct_fields),
]


def apply_all(text, extra=()):
    log = {}
    for name, fn in ALL:
        text, c = fn(text)
        if c:
            log[name] = c
    for name in extra:
        if name == 'R10':
            text, c = r10_iter_idioms(text)
            if c:
                log['R10'] = c
        if name == 'R20':
            text, c = r20_iter_while(text)
            if c:
                log['R20'] = c
        if name == 'R19':
            text, c = r19_enumerate(text)
            if c:
                log['R19'] = c
        if name == 'R17':
            text, c = r17_full_range(text)
            if c:
                log['R17'] = c
        if name == 'R21':
            text, c = r21_slice_patterns(text)
            if c:
                log['R21'] = c
        if name == 'R9':
            text, c = r9_raw_parts(text)
            if c:
                log['R9'] = c
    return text, log
