"""Run Verus on an assembled unit and map its verdicts to named obligations."""
import json
import os
import re
import subprocess
import time

VERUS = os.environ.get('VERIF_VERUS', 'verus')

SEMANTIC = (
    'postcondition not satisfied',
    'precondition not satisfied',
    'invariant not satisfied',
    'assertion failed',
    'possible arithmetic underflow/overflow',
    'possible division by zero',
    'possible bit shift underflow/overflow',
    'index out of bounds',
    'decreases not satisfied',
    'termination',
    'unreachable',
    'recommendation not met',
    'failed this',
    'requires not satisfied',
    'ensures not satisfied',
    'loop invariant',
    'might not',
    'post-condition',
    'precondition not met',
    'in bounds',
    'pre-condition',
)


def run(path, rlimit=30, threads=None, extra=None, timeout=900):
    """Returns dict(cmd, exit, wall_s, json (verus summary or None), diags [list of rustc diagnostics])."""
    cmd = [VERUS, path, '--output-json', '--time', '--multiple-errors', '20', '--triggers-mode', 'silent',
           '--rlimit', str(rlimit), '--no-erasure-check', '--error-format=json']
    if threads:
        cmd += ['--num-threads', str(threads)]
    if extra:
        cmd += extra
    t0 = time.time()
    try:
        p = subprocess.run(cmd, capture_output=True, text=True, timeout=timeout, cwd=os.path.dirname(path) or '.')
        out, err, code = p.stdout, p.stderr, p.returncode
    except subprocess.TimeoutExpired as e:
        out, err, code = (e.stdout or ''), (e.stderr or ''), -9
        if isinstance(out, bytes):
            out = out.decode(errors='replace')
        if isinstance(err, bytes):
            err = err.decode(errors='replace')
    wall = time.time() - t0
    summary = None
    try:
        k = out.index('{')
        summary = json.loads(out[k:])
    except Exception:
        summary = None
    diags = []
    other = []
    for line in err.split('\n'):
        line = line.strip()
        if line.startswith('{') and '"$message_type"' in line:
            try:
                d = json.loads(line)
            except Exception:
                other.append(line)
                continue
            if d.get('$message_type') == 'diagnostic':
                diags.append(d)
        elif line:
            other.append(line)
    return {'cmd': ' '.join(cmd), 'exit': code, 'wall_s': wall, 'summary': summary, 'diags': diags,
            'stderr_other': other[:50], 'timeout': code == -9}


def _item_at(meta, line):
    for iid, (a, b) in meta['item_ranges'].items():
        if b is not None and a <= line <= b:
            return iid
    return None


def _clause_at(meta, line, item):
    """Nearest clause marker at or before `line` inside the item's range."""
    best = None
    for ln, cid in meta['clause_lines'].items():
        ln = int(ln)
        if ln <= line and (best is None or ln > best[0]):
            if item is None or cid.startswith(item + '::'):
                best = (ln, cid)
    if best and line - best[0] <= 40:
        return best[1]
    return None


def classify(res, meta, unit_file):
    """Turn diagnostics into a list of failures:
       dict(kind: 'semantic'|'rlimit'|'frontend'|'internal', obligation, item, message, rendered)"""
    fails = []
    base = os.path.basename(unit_file)
    for d in res['diags']:
        if d.get('level') != 'error':
            continue
        msg = d.get('message', '')
        if msg.startswith('aborting due to'):
            continue
        spans = d.get('spans', [])
        ours = [s for s in spans if os.path.basename(s.get('file_name', '')) == base]
        prim = [s for s in ours if s.get('is_primary')]
        pline = prim[0]['line_start'] if prim else (ours[0]['line_start'] if ours else None)
        item = _item_at(meta, pline) if pline else None
        rendered = d.get('rendered', '')
        low = msg.lower()
        if 'resource limit' in low or 'rlimit' in low or 'timed out' in low:
            fails.append({'kind': 'rlimit', 'obligation': (item or 'unit') + '::rlimit', 'item': item,
                          'message': msg, 'rendered': rendered})
            continue
        sem = any(k in low for k in SEMANTIC)
        if not sem:
            fails.append({'kind': 'frontend', 'obligation': (item or 'unit') + '::frontend', 'item': item,
                          'message': msg, 'rendered': rendered})
            continue
        obl = None
        # labelled secondary spans
        lab = None
        for s in spans:
            l = (s.get('label') or '')
            if 'failed this postcondition' in l or 'failed precondition' in l or 'failed this' in l:
                lab = s
                break
        if 'postcondition' in low:
            s = lab or (prim[0] if prim else None)
            if s is not None and os.path.basename(s.get('file_name', '')) == base:
                it2 = _item_at(meta, s['line_start'])
                cid = _clause_at(meta, s['line_start'], it2)
                obl = cid
                item = it2 or item
            elif s is not None:
                # a trait-level / vstd postcondition (e.g. From::from against from_spec)
                obl = (item or 'unit') + '::post(%s:%s)' % (os.path.basename(s.get('file_name', '?')), s.get('line_start'))
        elif 'precondition' in low:
            callee = None
            if lab is not None and os.path.basename(lab.get('file_name', '')) == base:
                it2 = _item_at(meta, lab['line_start'])
                callee = _clause_at(meta, lab['line_start'], it2) or ('template:%d' % lab['line_start'])
            elif lab is not None:
                callee = 'vstd:%s:%s' % (os.path.basename(lab.get('file_name', '?')), lab.get('line_start'))
            snippet = ''
            if prim and prim[0].get('text'):
                t = prim[0]['text'][0]
                snippet = t['text'][t['highlight_start'] - 1:t['highlight_end'] - 1].strip()
            obl = '%s::call-pre(%s)[%s]' % (item or 'unit', callee or '?', re.sub(r'\s+', ' ', snippet)[:60])
        elif 'invariant' in low:
            s = lab if (lab is not None and os.path.basename(lab.get('file_name', '')) == base) else (prim[0] if prim else None)
            if s is not None:
                cid = _clause_at(meta, s['line_start'], item)
                obl = cid
                if obl and 'before loop' in low:
                    obl += '@entry'
        if obl is None:
            snippet = ''
            if prim and prim[0].get('text'):
                t = prim[0]['text'][0]
                snippet = t['text'][t['highlight_start'] - 1:t['highlight_end'] - 1].strip()
            kind = 'arith' if 'arithmetic' in low or 'division' in low or 'shift' in low else \
                   ('assert' if 'assertion' in low else 'side')
            obl = '%s::%s[%s]' % (item or ('template:%s' % pline), kind, re.sub(r'\s+', ' ', snippet)[:60])
        k = 'semantic' if item is not None else 'internal'
        if 'recommendation not met' in low and d.get('level') != 'error':
            continue
        fails.append({'kind': k, 'obligation': obl, 'item': item, 'message': msg, 'rendered': rendered})
    return fails


def function_table(res):
    """name -> (success, time_ms, rlimit) from Verus' function breakdown."""
    tab = {}
    s = res.get('summary') or {}
    try:
        for m in s['times-ms']['smt']['smt-run-module-times']:
            for f in m.get('function-breakdown', []):
                name = f['function'].split('::', 1)[1] if '::' in f['function'] else f['function']
                tab[name] = {'success': f.get('success'), 'time_ms': f.get('time'),
                             'time_us': f.get('time-micros'), 'rlimit': f.get('rlimit'), 'mode': f.get('mode:')}
    except Exception:
        pass
    return tab
