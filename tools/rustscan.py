"""Lexical scanner and item cutter for Rust source text.

Nothing here understands Rust semantics: it masks comments / string / char literals so
that brace matching and keyword searches only look at code, and cuts items out by name.
"""
import re


class ScanError(Exception):
    pass


def mask(text):
    """Return a string of the same length where every character that belongs to a
    comment, a string literal or a char literal is replaced by a blank (newlines kept).
    Also returns the list of (start, end, kind) regions, kind in
    {'lc','bc','str','bstr','rstr','chr'}."""
    n = len(text)
    out = list(text)
    regions = []
    i = 0

    def blank(a, b):
        for k in range(a, b):
            if out[k] != '\n':
                out[k] = ' '

    while i < n:
        c = text[i]
        nx = text[i + 1] if i + 1 < n else ''
        if c == '/' and nx == '/':
            j = text.find('\n', i)
            if j < 0:
                j = n
            regions.append((i, j, 'lc'))
            blank(i, j)
            i = j
            continue
        if c == '/' and nx == '*':
            depth = 1
            j = i + 2
            while j < n and depth > 0:
                if text.startswith('/*', j):
                    depth += 1
                    j += 2
                elif text.startswith('*/', j):
                    depth -= 1
                    j += 2
                else:
                    j += 1
            regions.append((i, j, 'bc'))
            blank(i, j)
            i = j
            continue
        # raw strings r"..", r#".."#, br".."
        m = re.match(r'(b?r)(#*)"', text[i:i + 40]) if c in 'br' else None
        if m and (i == 0 or not (text[i - 1].isalnum() or text[i - 1] == '_')):
            hashes = m.group(2)
            start = i
            j = i + m.end()
            end_pat = '"' + hashes
            k = text.find(end_pat, j)
            if k < 0:
                raise ScanError('unterminated raw string at %d' % i)
            j = k + len(end_pat)
            regions.append((start, j, 'rstr'))
            blank(start, j)
            i = j
            continue
        if c == '"' or (c == 'b' and nx == '"' and (i == 0 or not (text[i - 1].isalnum() or text[i - 1] == '_'))):
            start = i
            kind = 'str'
            j = i + 1
            if c == 'b':
                kind = 'bstr'
                j = i + 2
            while j < n:
                if text[j] == '\\':
                    j += 2
                    continue
                if text[j] == '"':
                    break
                j += 1
            j += 1
            regions.append((start, j, kind))
            blank(start, j)
            i = j
            continue
        if c == "'" or (c == 'b' and nx == "'" and (i == 0 or not (text[i - 1].isalnum() or text[i - 1] == '_'))):
            # char literal or lifetime
            s = i + (1 if c == 'b' else 0)
            m2 = re.match(r"'(\\x[0-9a-fA-F]{2}|\\u\{[0-9a-fA-F_]+\}|\\.|[^\\'])'", text[s:s + 14])
            if m2:
                j = s + m2.end()
                regions.append((i, j, 'chr'))
                blank(i, j)
                i = j
                continue
            i += 1
            continue
        i += 1
    return ''.join(out), regions


OPEN = {'{': '}', '(': ')', '[': ']'}
CLOSE = {'}': '{', ')': '(', ']': '['}


def match_close(m, i):
    """m: masked text; i: index of an opening bracket. Returns the index of the matching
    closing bracket."""
    stack = []
    n = len(m)
    k = i
    while k < n:
        ch = m[k]
        if ch in OPEN:
            stack.append(ch)
        elif ch in CLOSE:
            if not stack or stack[-1] != CLOSE[ch]:
                raise ScanError('unbalanced bracket at %d' % k)
            stack.pop()
            if not stack:
                return k
        k += 1
    raise ScanError('no closing bracket for %d' % i)


def _attr_start(text, m, start):
    """Extend `start` backwards over attributes and doc comments that directly precede
    an item."""
    while True:
        # skip whitespace backwards
        k = start
        while k > 0 and text[k - 1] in ' \t\r\n':
            k -= 1
        if k == 0:
            return start
        # preceding line
        ls = text.rfind('\n', 0, k) + 1
        line = text[ls:k].strip()
        if line.startswith('///') or line.startswith('//!'):
            start = ls
            continue
        if line.endswith(']'):
            # find the matching '#[' in masked text
            depth = 0
            j = k - 1
            while j >= 0:
                if m[j] == ']':
                    depth += 1
                elif m[j] == '[':
                    depth -= 1
                    if depth == 0:
                        break
                j -= 1
            if j > 0 and m[j - 1] == '#':
                start = j - 1
                # keep going on the same line start
                ls2 = text.rfind('\n', 0, start) + 1
                if text[ls2:start].strip() == '':
                    start = ls2
                continue
        return start


VIS = r'(?:pub(?:\s*\([^)]*\))?\s+)?'
FNQ = r'(?:(?:const|async|unsafe|extern\s+"[^"]*"|extern)\s+)*'


class Item:
    def __init__(self, file, kind, name, start, end, text, line):
        self.file = file
        self.kind = kind
        self.name = name
        self.start = start
        self.end = end
        self.text = text
        self.line = line


def _find_blocks(text, m, header_re, lo=0, hi=None):
    """Find items whose header matches header_re (searched on masked text) between lo
    and hi, whose body is a brace block. Yields (hdr_start, brace_open, brace_close)."""
    hi = len(m) if hi is None else hi
    for mo in re.finditer(header_re, m[lo:hi]):
        s = lo + mo.start()
        # find the opening brace of the body at bracket depth 0 (parens/brackets skipped)
        k = lo + mo.end()
        depth = 0
        while k < hi:
            ch = m[k]
            if ch in '([':
                depth += 1
            elif ch in ')]':
                depth -= 1
            elif ch == '{' and depth == 0:
                break
            elif ch == ';' and depth == 0:
                k = -1
                break
            k += 1
        if k < 0 or k >= hi:
            continue
        e = match_close(m, k)
        yield s, k, e


def depth_at(m, pos, lo=0):
    d = 0
    for ch in m[lo:pos]:
        if ch == '{':
            d += 1
        elif ch == '}':
            d -= 1
    return d


def find_impl_blocks(text, m, type_name, trait=None):
    """All `impl [<..>] [Trait for] Type [<..>] {` blocks at any module depth."""
    tn = re.escape(type_name)
    if trait:
        tr = re.escape(trait).replace(r'\ ', r'\s*')
        pat = r'\bimpl\b(?:\s*<[^{;]*?>)?\s+(?:[\w:]+::)?' + tr + (r'' if '<' in trait else r'(?:<[^{;]*?>)?') + r'\s+for\s+(?:[\w:]+::)?' + tn + r'\b(?:<[^{;]*?>)?[^{;]*'
    else:
        pat = r'\bimpl\b(?:\s*<[^{;]*?>)?\s+(?:[\w:]+::)?' + tn + r'\b(?:<[^{;]*?>)?\s*(?:where[^{;]*)?(?=\{)'
    res = []
    for s, k, e in _find_blocks(text, m, pat):
        hdr = m[s:k]
        if not trait and re.search(r'\bfor\b', hdr):
            continue
        res.append((s, k, e))
    return res


def find_fn(text, m, name, lo=0, hi=None, want_depth=0):
    """Find `fn name` between lo and hi at brace depth want_depth relative to lo."""
    hi = len(m) if hi is None else hi
    pat = re.compile(r'\bfn\s+' + re.escape(name) + r'\b')
    found = []
    for mo in pat.finditer(m, lo, hi):
        if depth_at(m, mo.start(), lo) != want_depth:
            continue
        # header start: go back over visibility / qualifiers on the same logical line
        ls = mo.start()
        back = m[max(lo, ls - 80):ls]
        mq = re.search(r'(' + VIS + FNQ + r')$', back)
        hs = ls - len(mq.group(1)) if mq else ls
        # body brace
        k = mo.end()
        depth = 0
        semi = False
        angle = 0
        while k < hi:
            ch = m[k]
            if ch in '([':
                depth += 1
            elif ch in ')]':
                depth -= 1
            elif ch == '{' and depth == 0:
                break
            elif ch == ';' and depth == 0:
                semi = True
                break
            k += 1
        if semi:
            continue
        e = match_close(m, k)
        found.append((hs, k, e))
    return found


def cut_item(path, text, selector, m=None, lo=0, hi=None):
    """selector forms (optionally prefixed by one or more `mod NAME ::`):
         fn NAME
         impl TYPE :: fn NAME
         impl TRAIT for TYPE :: fn NAME        (TRAIT may carry generic arguments)
         struct NAME | enum NAME | const NAME | static NAME | type NAME
         impl TRAIT for TYPE            (whole impl block)
       A trailing ` #k` picks the k-th candidate. Returns Item. Raises ScanError when not
       found or ambiguous."""
    if m is None:
        m, _ = mask(text)
    hi = len(m) if hi is None else hi
    sel = selector.strip()
    mo = re.match(r'^mod\s+(\w+)\s*::\s*(.*)$', sel)
    if mo:
        md, rest = mo.groups()
        cands = [(k, e) for s, k, e in _find_blocks(text, m, r'\bmod\s+' + md + r'\b\s*(?=\{)', lo, hi)
                 if depth_at(m, s, lo) == 0]
        if len(cands) != 1:
            raise ScanError('lost anchor: mod %s found %d times in %s' % (md, len(cands), path))
        return cut_item(path, text, rest, m, cands[0][0] + 1, cands[0][1])
    nth = None
    mo = re.match(r'^(.*)\s+#(\d+)$', sel)
    if mo:
        sel, nth = mo.group(1).strip(), int(mo.group(2))

    def mk(kind, name, s, e):
        s2 = _attr_start(text, m, s)
        if s2 < lo:
            s2 = s
        line = text.count('\n', 0, s) + 1
        return Item(path, kind, name, s2, e + 1, text[s2:e + 1], line)

    def pick(cands, what):
        if not cands:
            raise ScanError('lost anchor: %s not found in %s' % (what, path))
        if nth is not None:
            if nth >= len(cands):
                raise ScanError('lost anchor: %s #%d not found in %s' % (what, nth, path))
            return cands[nth]
        if len(cands) > 1:
            raise ScanError('ambiguous anchor: %s found %d times in %s' % (what, len(cands), path))
        return cands[0]

    def impls(ty, trait):
        return [(s, k, e) for s, k, e in find_impl_blocks(text, m, ty, trait) if lo <= s and e <= hi]

    mo = re.match(r'^impl\s+(?:([\w:]+(?:<[^>]*>)?)\s+for\s+)?(\w+)\s*::\s*fn\s+(\w+)$', sel)
    if mo:
        trait, ty, fn = mo.groups()
        cands = []
        for s, k, e in impls(ty, trait):
            for hs, bk, be in find_fn(text, m, fn, k + 1, e, 0):
                cands.append((hs, be))
        hs, be = pick(cands, sel)
        return mk('fn', fn, hs, be)
    mo = re.match(r'^impl\s+([\w:]+(?:<[^>]*>)?)\s+for\s+(\w+)$', sel)
    if mo:
        trait, ty = mo.groups()
        cands = [(s, e) for s, k, e in impls(ty, trait)]
        s, e = pick(cands, sel)
        return mk('impl', ty, s, e)
    mo = re.match(r'^fn\s+(\w+)$', sel)
    if mo:
        fn = mo.group(1)
        cands = [(hs, be) for hs, bk, be in find_fn(text, m, fn, lo, hi, 0)]
        hs, be = pick(cands, sel)
        return mk('fn', fn, hs, be)
    mo = re.match(r'^(struct|enum|union)\s+(\w+)$', sel)
    if mo:
        kind, name = mo.groups()
        cands = []
        for mm in re.finditer(r'(' + VIS + r')\b' + kind + r'\s+' + name + r'\b', m[lo:hi]):
            s = lo + mm.start()
            if depth_at(m, s, lo) != 0:
                continue
            # tuple struct / unit struct end with ';', others with a brace block
            k = lo + mm.end()
            depth = 0
            while k < hi:
                ch = m[k]
                if ch in '([':
                    depth += 1
                elif ch in ')]':
                    depth -= 1
                elif ch == ';' and depth == 0:
                    cands.append((s, k))
                    break
                elif ch == '{' and depth == 0:
                    cands.append((s, match_close(m, k)))
                    break
                k += 1
        s, e = pick(cands, sel)
        return mk(kind, name, s, e)
    mo = re.match(r'^(const|static|type)\s+(\w+)$', sel)
    if mo:
        kind, name = mo.groups()
        cands = []
        for mm in re.finditer(r'(' + VIS + r')\b' + kind + r'\s+' + name + r'\b', m[lo:hi]):
            s = lo + mm.start()
            k = lo + mm.end()
            depth = 0
            while k < hi:
                ch = m[k]
                if ch in '([{':
                    depth += 1
                elif ch in ')]}':
                    depth -= 1
                elif ch == ';' and depth == 0:
                    break
                k += 1
            cands.append((s, k))
        s, e = pick(cands, sel)
        return mk(kind, name, s, e)
    raise ScanError('bad selector: ' + selector)


def split_fn(item_text):
    """Split a function item into (attrs_and_header_before_body, body_including_braces).
    The header is everything up to (excluding) the body's opening brace."""
    m, _ = mask(item_text)
    mo = re.search(r'\bfn\s+\w+', m)
    if not mo:
        raise ScanError('not a function')
    k = mo.end()
    depth = 0
    while k < len(m):
        ch = m[k]
        if ch in '([':
            depth += 1
        elif ch in ')]':
            depth -= 1
        elif ch == '{' and depth == 0:
            break
        k += 1
    e = match_close(m, k)
    return item_text[:k], item_text[k:e + 1]


def find_loops(body):
    """Loops of a function body in source order.
    Returns list of dicts: kind ('for'|'while'|'loop'), kw (index of keyword),
    brace (index of the body's opening brace), end (index of its closing brace),
    and for 'for' loops: in_pos (index just after the ` in ` keyword)."""
    m, _ = mask(body)
    loops = []
    for mo in re.finditer(r"(?:'\w+\s*:\s*)?\b(for|while|loop)\b", m):
        kw = mo.group(1)
        # `for` inside `impl X for Y` / HRTB cannot occur in a body; closures `for<'a>` rare
        k = mo.end()
        in_pos = None
        if kw == 'for':
            # the pattern may contain braces (`for Struct { a, b } in ..`): look for ` in ` at bracket depth 0 first
            dd = 0
            kk = k
            while kk < len(m):
                ch = m[kk]
                if ch in '([{':
                    dd += 1
                elif ch in ')]}':
                    dd -= 1
                    if dd < 0:
                        break
                elif ch == ';' and dd == 0:
                    break
                elif dd == 0 and m[kk:kk + 2] == 'in' and re.match(r'\bin\b', m[kk - 1:kk + 3].replace('\n', ' ')[1:]) and not (m[kk - 1].isalnum() or m[kk - 1] == '_') and not (m[kk + 2].isalnum() or m[kk + 2] == '_'):
                    in_pos = kk + 2
                    break
                kk += 1
            if in_pos is None:
                continue
            k = in_pos
        depth = 0
        ok = True
        while k < len(m):
            ch = m[k]
            if ch in '([':
                depth += 1
            elif ch in ')]':
                depth -= 1
                if depth < 0:
                    ok = False
                    break
            elif ch == '{' and depth == 0:
                break
            elif ch == ';' and depth == 0:
                ok = False
                break
            k += 1
        if not ok or k >= len(m):
            continue
        d = {'kind': kw, 'kw': mo.start(1), 'start': mo.start(), 'brace': k, 'end': match_close(m, k)}
        if kw == 'for':
            d['in_pos'] = in_pos
        loops.append(d)
    return loops


def tail_start(body):
    """Index (within body, which includes its braces) where the tail expression /
    last statement of the block starts."""
    m, _ = mask(body)
    n = len(m)
    assert m[0] == '{' and m[n - 1] == '}'
    i = 1
    last = 1
    depth = 0
    while i < n - 1:
        ch = m[i]
        if ch in '([{':
            j = match_close(m, i)
            if ch == '{' and depth == 0:
                # block-like statement ends here if followed by something that cannot continue it
                rest = m[j + 1:n - 1].lstrip()
                if rest and not rest.startswith(('.', '?', 'else', ';', ')', ',', 'as ')) \
                        and not re.match(r'^(=>|==|&&|\|\||[-+*/%<>=|&^])', rest):
                    last = j + 1
            i = j + 1
            continue
        if ch == ';':
            last = i + 1
        i += 1
    # skip whitespace
    while last < n - 1 and m[last] in ' \t\r\n' and body[last] in ' \t\r\n':
        last += 1
    return last
