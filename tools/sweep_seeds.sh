#!/bin/bash
# Regression sweep: every recorded seed against the check of the property it breaks, on a scratch worktree
# (never /repo). usage: sweep_seeds.sh [out.tsv [part parts]]   (part/parts: only every parts-th seed, to run several sweeps side by side)
OUT="${1:-/scratch/t/sweep.tsv}"; PART="${2:-0}"; PARTS="${3:-1}"
WT=/tmp/wt_sweep$PART
export VERIF_REPO=$WT VERIF_WORK=/scratch/t/sweep-work$PART VERIF_EVIDENCE_DIR=/scratch/t/sweep-ev$PART VERIF_NO_WITNESS=1
git -C /repo worktree remove --force $WT 2>/dev/null; git -C /repo worktree prune
git -C /repo worktree add -q --detach $WT HEAD || exit 2
: > "$OUT"
n=0
for d in /verif/seeded/*/; do
  n=$((n+1)); [ $((n % PARTS)) -eq $PART ] || continue
  id=$(basename $d); prop=$(python3 -c "import json;print(json.load(open('$d/meta.json'))['breaks_property'])")
  ( cd $WT && git checkout -q -- . && git apply "$d/patch.diff" 2>/dev/null ) || { printf "%s\t%s\tPATCH-DOES-NOT-APPLY\n" $id $prop >> "$OUT"; continue; }
  res=$(cd /verif && ./check $prop 2>&1 | grep -E "^(VIOLATION|UNDECIDED|OK)" | head -1 | cut -c1-160)
  printf "%s\t%s\t%s\n" $id $prop "$res" >> "$OUT"
done
( cd $WT && git checkout -q -- . )
git -C /repo worktree remove --force $WT
echo done >> "$OUT"
