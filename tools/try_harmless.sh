#!/bin/bash
# usage: try_harmless.sh <out.tsv> <part> <parts> <dir>...
# Runs, on a scratch worktree (never /repo), the checks of two or three properties whose units read a file that the patch
# <dir>/patch.diff touches. For a behaviour-preserving patch every line must say OK or UNDECIDED; a VIOLATION is a false alarm.
OUT="$1"; PART="$2"; PARTS="$3"; shift 3
WT=/tmp/wt_harmless$PART
export VERIF_REPO=$WT VERIF_WORK=/scratch/t/harmless-work$PART VERIF_EVIDENCE_DIR=/scratch/t/harmless-ev$PART VERIF_NO_WITNESS=1
git -C /repo worktree remove --force $WT 2>/dev/null; git -C /repo worktree prune
git -C /repo worktree add -q --detach $WT HEAD || exit 2
: > "$OUT"
n=0
for d in "$@"; do
  n=$((n+1)); [ $((n % PARTS)) -eq $PART ] || continue
  ( cd $WT && git checkout -q -- . && git apply "$d/patch.diff" 2>/dev/null ) || { printf "%s\t-\tPATCH-DOES-NOT-APPLY\n" $d >> "$OUT"; continue; }
  props=$(cd $WT && git diff --name-only | python3 -c "
import sys
M = {'crypto/mod.rs': 'C02 C01 C17', 'format/mod.rs': 'C02 C01 C16',
     'crypto/ed25519.rs': 'C17', 'crypto/p256.rs': 'C17',
     'token/mod.rs': 'C12 C15', 'token/unverified.rs': 'C12 C15', 'token/third_party.rs': 'C08 C09',
     'datalog/symbol.rs': 'C12 C09', 'token/public_keys.rs': 'C12',
     'datalog/mod.rs': 'C04 C10 C16', 'datalog/origin.rs': 'C03', 'datalog/expression.rs': 'C06 C09',
     'token/authorizer.rs': 'C04 C10', 'authorizer/snapshot.rs': 'C03 C09', 'builder/authorizer.rs': 'C03 C04',
     'format/convert.rs': 'C12 C16', 'biscuit-capi/src/lib.rs': 'C19'}
out = []
for l in sys.stdin:
    for k, v in M.items():
        if l.strip().endswith(k):
            out += v.split()
print(' '.join(sorted(set(out))))")
  for p in $props; do
    res=$(cd /verif && ./check $p 2>&1 | grep -E "^(VIOLATION|UNDECIDED|OK)" | head -2 | cut -c1-300 | tr '\n' '|')
    printf "%s\t%s\t%s\n" $d $p "$res" >> "$OUT"
  done
done
( cd $WT && git checkout -q -- . )
git -C /repo worktree remove --force $WT
echo done >> "$OUT"
