#!/bin/sh
# usage: try_mutant.sh <patch.diff> <property>...   (applies the patch to /repo, runs the checks, reverts)
P="$1"; shift
cd /repo || exit 2
git diff --quiet || { echo "/repo has uncommitted changes"; exit 2; }
git apply "$P" || { echo "patch does not apply"; exit 2; }
cd /verif
for p in "$@"; do
  echo "--- $p"
  VERIF_EVIDENCE_DIR=/verif/work/mutant-evidence ./check "$p" 2>&1 | grep -E "^(VIOLATION|UNDECIDED|OK|KNOWN)" | head -8
  echo "exit=$?"
done
git -C /repo checkout -- .
git -C /repo status --short | head -3
