"""Assemble a verification unit: a Verus file made of a hand-written specification
template (/verif/specs/*.rs) into which the *real* items of /repo are spliced at every
`//@extract` directive, after the mechanical rewrites of rewrite.py and the injection of
the contracts written in the directive block.

Directive block grammar (every line starts with `//@`; `//@|` continues the previous
clause on a new line):

  //@extract <path relative to repo> :: <selector>          (see rustscan.cut_item)
  //@ id <name>                 obligation prefix (default: Type::fn or fn name)
  //@ result <name>             name given to the return value (default r)
  //@ requires <label>: <expr>
  //@ ensures <label>: <expr>
  //@ decreases <expr>
  //@ opens_invariants none | no_unwind ...   (passed through verbatim as `raw_sig <text>`)
  //@ loop <n> ghost <name>     ghost iterator name of the n-th loop (for loops)
  //@ loop <n> invariant <label>: <expr>
  //@ loop <n> decreases <expr>
  //@ ghost <anchor> :: <text>  anchor: body_start | before_tail | loop <n> start |
  //@                            loop <n> end | after_loop <n> | before "<pat>" [#k] | after "<pat>" [#k]
  //@ external_body             keep the real signature + contract, drop the body (assumed callee)
  //@ attr <text>               extra attribute line put in front of the item
  //@ rewrites R10              opt-in rewrites
  //@ sub <regex> => <repl>     per-item textual substitution (logged as per-item rewrite)
  //@ abstract_loop <n> :: <call text>     rule A1: replace loop n by the given call
  //@end

Top-level directives outside blocks:
  //@include <file relative to specs dir>
  //@canary <id> :: <item id> :: <from> => <to>       must-fail mutation of extracted text
  //@canary-requires <item id>                        must-fail `ensures false` copy
"""
import hashlib
import os
import re

import rewrite
from rustscan import (ScanError, cut_item, find_loops, mask, match_close, split_fn,
                      tail_start)


class UnitError(Exception):
    """Template / anchor problem: the unit cannot be assembled (=> UNDECIDED)."""


class ItemSpec:
    def __init__(self, path, selector):
        self.path = path
        self.selector = selector
        self.id = None
        self.result = 'r'
        self.requires = []   # (label, expr)
        self.ensures = []
        self.decreases = None
        self.raw_sig = []
        self.loops = {}      # n -> dict(ghost, invariants[(label, expr)], decreases)
        self.ghosts = []     # (anchor, text)
        self.external_body = False
        self.attrs = []
        self.rewrites = []
        self.subs = []
        self.abstract_loops = {}
        self.abstract_args = []
        self.abstract_arms = []
        self.from_other_unit = False
        self.closures = {}
        self.strip_generics = False

    def loop(self, n):
        return self.loops.setdefault(n, {'ghost': None, 'invariants': [], 'decreases': None, 'inv_except_break': [], 'ensures': []})


def module_of(path):
    p = path
    for pre in ('biscuit-auth/src/', 'biscuit-capi/src/', 'biscuit-parser/src/', 'biscuit-quote/src/'):
        if p.startswith(pre):
            p = p[len(pre):]
            if not pre.startswith('biscuit-auth'):
                p = pre.split('/')[0] + '/' + p
    if p.endswith('.rs'):
        p = p[:-3]
    if p.endswith('/mod'):
        p = p[:-4]
    if p in ('lib', 'mod'):
        return ''
    return p.replace('/', '::') + '::'


def default_id(selector):
    pre = ''
    while True:
        mo = re.match(r'^mod\s+(\w+)\s*::\s*(.*)$', selector)
        if not mo:
            break
        pre += mo.group(1) + '::'
        selector = mo.group(2)
    return pre + _default_id(selector)


def _default_id(selector):
    mo = re.match(r'^impl\s+(?:([\w:]+(?:<[^>]*>)?)\s+for\s+)?(\w+)\s*::\s*fn\s+(\w+)', selector)
    if mo:
        if mo.group(1) and '<' in mo.group(1):
            return '%s::%s::%s' % (mo.group(2), mo.group(1).replace(' ', ''), mo.group(3))
        return '%s::%s' % (mo.group(2), mo.group(3))
    mo = re.match(r'^(?:fn|struct|enum|const|static|type)\s+(\w+)', selector)
    if mo:
        return mo.group(1)
    return selector


def parse_template(path, specs_dir, seen=None, contracts_only=False):
    """Returns list of parts: ('text', str) | ('item', ItemSpec); plus canaries."""
    seen = seen or set()
    if path in seen:
        raise UnitError('include cycle: ' + path)
    seen.add(path)
    parts = []
    canaries = []
    lines = open(path).read().split('\n')
    i = 0
    cur = None
    last_clause = None
    while i < len(lines):
        ln = lines[i]
        st = ln.strip()
        if cur is None:
            if st.startswith('//@include-contracts '):
                # same text, but every extracted function keeps only its signature + contract
                # (assumed here, proved in the unit that includes the file normally)
                inc = os.path.join(specs_dir, st[len('//@include-contracts '):].strip())
                p2, c2 = parse_template(inc, specs_dir, seen, True)
                parts.extend(p2)
            elif st.startswith('//@include '):
                inc = os.path.join(specs_dir, st[len('//@include '):].strip())
                p2, c2 = parse_template(inc, specs_dir, seen, contracts_only)
                parts.extend(p2)
                if not contracts_only:
                    canaries.extend(c2)
            elif st.startswith('//@extract '):
                body = st[len('//@extract '):]
                if '::' not in body:
                    raise UnitError('%s:%d: bad extract' % (path, i + 1))
                p, sel = body.split('::', 1)
                cur = ItemSpec(p.strip(), sel.strip())
                cur.id = module_of(cur.path) + default_id(cur.selector)
                cur.indent = ln[:len(ln) - len(ln.lstrip())]
                cur.tmpl = '%s:%d' % (os.path.basename(path), i + 1)
            elif st.startswith('//@canary-requires '):
                canaries.append({'kind': 'requires', 'item': st[len('//@canary-requires '):].strip(),
                                 'id': 'req:' + st[len('//@canary-requires '):].strip()})
            elif st.startswith('//@canary '):
                body = st[len('//@canary '):]
                mo = re.match(r'^(\S+)\s+::\s+(.+?)\s+::\s+(.*?)\s==>>\s?(.*)$', body)
                if not mo:
                    raise UnitError('%s:%d: bad canary' % (path, i + 1))
                canaries.append({'kind': 'mutation', 'id': mo.group(1), 'item': mo.group(2).strip(),
                                 'from': mo.group(3).strip().replace('\\n', '\n'), 'to': mo.group(4).strip().replace('\\n', '\n')})
            elif st.startswith('//@'):
                raise UnitError('%s:%d: directive outside block: %s' % (path, i + 1, st))
            else:
                parts.append(('text', ln))
            i += 1
            continue
        # inside an extract block
        if not st.startswith('//@'):
            raise UnitError('%s:%d: non-directive line inside extract block' % (path, i + 1))
        d = st[3:]
        if d.startswith('|'):
            if last_clause is None:
                raise UnitError('%s:%d: continuation without clause' % (path, i + 1))
            last_clause[-1] = last_clause[-1] + '\n' + d[1:].rstrip()
            i += 1
            continue
        d = d.strip()
        last_clause = None
        if d == 'end':
            if contracts_only:
                cur.external_body = True
                cur.from_other_unit = True
                cur.loops = {}
                cur.ghosts = []
                cur.closures = {}
                cur.abstract_loops = {}
            parts.append(('item', cur))
            cur = None
        elif d.startswith('id '):
            cur.id = d[3:].strip()
        elif d.startswith('result '):
            cur.result = d[7:].strip()
        elif d.startswith('requires ') or d.startswith('ensures '):
            kind, rest = d.split(' ', 1)
            mo = re.match(r'^([\w\-\.]+):\s*(.*)$', rest)
            if not mo:
                raise UnitError('%s:%d: clause needs a label' % (path, i + 1))
            cl = [mo.group(1), mo.group(2)]
            (cur.requires if kind == 'requires' else cur.ensures).append(cl)
            last_clause = cl
        elif d.startswith('decreases '):
            cur.decreases = d[len('decreases '):]
        elif d.startswith('raw_sig '):
            cur.raw_sig.append(d[len('raw_sig '):])
        elif d.startswith('loop '):
            mo = re.match(r'^loop\s+(\d+)\s+(ghost|invariant_except_break|invariant|ensures|decreases)\s+(.*)$', d)
            if not mo:
                raise UnitError('%s:%d: bad loop directive' % (path, i + 1))
            n = int(mo.group(1))
            lp = cur.loop(n)
            if mo.group(2) == 'ghost':
                lp['ghost'] = mo.group(3).strip()
            elif mo.group(2) == 'decreases':
                lp['decreases'] = mo.group(3).strip()
            else:
                m2 = re.match(r'^([\w\-\.]+):\s*(.*)$', mo.group(3))
                if not m2:
                    raise UnitError('%s:%d: invariant needs a label' % (path, i + 1))
                cl = [m2.group(1), m2.group(2)]
                key = {'invariant': 'invariants', 'invariant_except_break': 'inv_except_break', 'ensures': 'ensures'}[mo.group(2)]
                lp[key].append(cl)
                last_clause = cl
        elif d.startswith('ghost '):
            mo = re.match(r'^ghost\s+(.*?)\s*::\s*(.*)$', d)
            if not mo:
                raise UnitError('%s:%d: bad ghost directive' % (path, i + 1))
            cl = [mo.group(1).strip(), mo.group(2)]
            cur.ghosts.append(cl)
            last_clause = cl
        elif d == 'external_body':
            cur.external_body = True
        elif d.startswith('attr '):
            cur.attrs.append(d[5:])
        elif d.startswith('rewrites '):
            cur.rewrites.extend(d[len('rewrites '):].split())
        elif d.startswith('sub '):
            a, b = d[4:].split(' => ', 1)
            cur.subs.append((a.strip(), b.strip(), None))
        elif d.startswith('sub_unless_gone '):
            # `sub_unless_gone <guard> :: <regex> => <repl>`: like `sub`, but when <regex> does not match AND the
            # item no longer contains <guard> at all, the construct was removed (not reshaped): go on without it
            g, rest = d[len('sub_unless_gone '):].split(' :: ', 1)
            a, b = rest.split(' => ', 1)
            cur.subs.append((a.strip(), b.strip(), g.strip()))
        elif d.startswith('closure '):
            mo = re.match(r'^closure\s+(\d+)\s+(returns|ensures)\s+(.*)$', d)
            if not mo:
                raise UnitError('%s:%d: bad closure directive' % (path, i + 1))
            c = cur.closures.setdefault(int(mo.group(1)), {'returns': None, 'ensures': []})
            if mo.group(2) == 'returns':
                c['returns'] = mo.group(3).strip()
            else:
                m2 = re.match(r'^([\w\-\.]+):\s*(.*)$', mo.group(3))
                if not m2:
                    raise UnitError('%s:%d: closure ensures needs a label' % (path, i + 1))
                cl = [m2.group(1), m2.group(2)]
                c['ensures'].append(cl)
                last_clause = cl
        elif d.startswith('abstract_arms '):
            mo = re.match(r'^abstract_arms\s+(\d+)\s*::\s*(.*?)\s*==>>\s*(.*)$', d)
            if not mo:
                raise UnitError('%s:%d: bad abstract_arms' % (path, i + 1))
            cur.abstract_arms.append((int(mo.group(1)), mo.group(2), mo.group(3)))
        elif d.startswith('abstract_arg '):
            mo = re.match(r'^abstract_arg\s+([\w:]+)\s+(\d+)\s*::\s*(.*)$', d)
            if not mo:
                raise UnitError('%s:%d: bad abstract_arg' % (path, i + 1))
            cur.abstract_args.append((mo.group(1), int(mo.group(2)), mo.group(3)))
        elif d.startswith('abstract_loop '):
            mo = re.match(r'^abstract_loop\s+(\d+)\s*::\s*(.*)$', d)
            cl = [int(mo.group(1)), mo.group(2)]
            cur.abstract_loops[cl[0]] = cl
            last_clause = cl
        else:
            raise UnitError('%s:%d: unknown directive: %s' % (path, i + 1, d))
        i += 1
    if cur is not None:
        raise UnitError('%s: unterminated extract block' % path)
    return parts, canaries


def _inject_header(header, spec, marks):
    """header: text up to the body's opening brace. Returns new header text."""
    m, _ = mask(header)
    mo = re.search(r'\bfn\s+\w+', m)
    k = mo.end()
    # generics
    while k < len(m) and m[k] in ' \t\n':
        k += 1
    if k < len(m) and m[k] == '<':
        depth = 0
        while k < len(m):
            if m[k] == '<':
                depth += 1
            elif m[k] == '>' and m[k - 1] != '-':
                depth -= 1
                if depth == 0:
                    k += 1
                    break
            k += 1
    p_open = m.index('(', k)
    p_close = match_close(m, p_open)
    rest = header[p_close + 1:]
    mrest = m[p_close + 1:]
    arrow = re.match(r'\s*->\s*', mrest)
    where = re.search(r'\bwhere\b', mrest)
    where_txt = ''
    if where:
        where_txt = rest[where.start():].rstrip()
        rest_nowhere = rest[:where.start()]
    else:
        rest_nowhere = rest
    new = header[:p_close + 1]
    if arrow:
        ty = rest_nowhere[arrow.end():].strip()
        new += ' -> (%s: %s)' % (spec.result, ty)
    if where_txt:
        new += '\n    ' + where_txt
    clauses = []
    if spec.requires:
        clauses.append('    requires')
        for label, expr in spec.requires:
            clauses.append('        /*@C:%s::requires.%s@*/ %s,' % (spec.id, label, expr))
    if spec.ensures:
        clauses.append('    ensures')
        for label, expr in spec.ensures:
            clauses.append('        /*@C:%s::ensures.%s@*/ %s,' % (spec.id, label, expr))
    if spec.decreases:
        clauses.append('    decreases %s,' % spec.decreases)
    for r in spec.raw_sig:
        clauses.append('    ' + r)
    if clauses:
        new += '\n' + '\n'.join(clauses) + '\n'
    else:
        new += ' '
    return new


def _find_anchor(body, loops, anchor):
    """Return insertion index in body for a ghost anchor."""
    m, _ = mask(body)
    if anchor == 'body_start':
        return 1
    if anchor == 'before_tail':
        return tail_start(body)
    mo = re.match(r'^loop\s+(\d+)\s+(start|end)$', anchor)
    if mo:
        n = int(mo.group(1))
        if n >= len(loops):
            raise UnitError('lost anchor: loop %d' % n)
        return loops[n]['brace'] + 1 if mo.group(2) == 'start' else loops[n]['end']
    mo = re.match(r'^after_loop\s+(\d+)$', anchor)
    if mo:
        n = int(mo.group(1))
        if n >= len(loops):
            raise UnitError('lost anchor: loop %d' % n)
        return loops[n]['end'] + 1
    mo = re.match(r'^(before|after)\s+"(.*)"(?:\s+#(\d+))?$', anchor)
    if mo:
        pat = mo.group(2)
        k = int(mo.group(3) or 0)
        idx = -1
        start = 0
        for _ in range(k + 1):
            idx = body.find(pat, start)
            if idx < 0:
                raise UnitError('lost anchor: text %r' % pat)
            start = idx + 1
        if mo.group(1) == 'before':
            # go to the start of the statement line
            ls = body.rfind('\n', 0, idx) + 1
            return ls
        # after: end of the statement = next ';' at same depth or end of line
        j = idx + len(pat)
        depth = 0
        while j < len(m):
            ch = m[j]
            if ch in '([{':
                depth += 1
            elif ch in ')]}':
                depth -= 1
                if depth < 0:
                    return j
            elif ch == ';' and depth == 0:
                return j + 1
            j += 1
        return j
    raise UnitError('bad anchor: ' + anchor)


def _inject_body(body, spec):
    loops = find_loops(body)
    inserts = []  # (pos, order, text)
    replaced = []  # (start, end, text) for abstract loops
    for n, lp in spec.loops.items():
        if n >= len(loops):
            raise UnitError('lost anchor: %s loop %d (function has %d loops)' % (spec.id, n, len(loops)))
        L = loops[n]
        if n in spec.abstract_loops:
            continue
        if lp['ghost']:
            if L['kind'] != 'for':
                raise UnitError('%s loop %d is not a for loop' % (spec.id, n))
            inserts.append((L['in_pos'], 0, ' %s:' % lp['ghost']))
        ann = []
        if lp.get('inv_except_break'):
            ann.append('\n        invariant_except_break')
            for label, expr in lp['inv_except_break']:
                ann.append('            /*@C:%s::loop%d.%s@*/ %s,' % (spec.id, n, label, expr))
        if lp['invariants']:
            ann.append('\n        invariant')
            for label, expr in lp['invariants']:
                ann.append('            /*@C:%s::loop%d.%s@*/ %s,' % (spec.id, n, label, expr))
        if lp.get('ensures'):
            ann.append('\n        ensures')
            for label, expr in lp['ensures']:
                ann.append('            /*@C:%s::loop%d.%s@*/ %s,' % (spec.id, n, label, expr))
        if lp['decreases']:
            ann.append('        decreases %s,' % lp['decreases'])
        if ann:
            inserts.append((L['brace'], 0, '\n'.join(ann) + '\n        '))
    for n, (_, call) in spec.abstract_loops.items():
        if n >= len(loops):
            raise UnitError('lost anchor: %s loop %d' % (spec.id, n))
        L = loops[n]
        replaced.append((L['start'], L['end'] + 1, '/*@A1 loop %d abstracted@*/ %s' % (n, call)))
    if spec.closures:
        mb, _ = mask(body)
        cl_pos = []
        for mo in re.finditer(r'(?<=[\(,=])\s*(\|[^|\n]*\|)\s*', mb):
            k = mo.end()
            if 'verif_' in mo.group(1) or mb[k:k + 2] == '->':
                continue    # closures generated / already annotated by rewrite R3
            if mb[k] == '{':
                cl_pos.append((mo.end(1), None))
            else:
                # expression body: ends at the ')' closing the enclosing call or at a ',' at depth 0
                depth = 0
                j = k
                while j < len(mb):
                    ch = mb[j]
                    if ch in '([{':
                        depth += 1
                    elif ch in ')]}':
                        if depth == 0:
                            break
                        depth -= 1
                    elif ch == ',' and depth == 0:
                        break
                    j += 1
                cl_pos.append((mo.end(1), (k, j)))
        for n, c in spec.closures.items():
            if len(cl_pos) == 0:
                continue    # the function has no closure at all any more: nothing to annotate (proof only)
            if n >= len(cl_pos):
                raise UnitError('lost anchor: %s closure %d (function has %d closures)' % (spec.id, n, len(cl_pos)))
            ann = ' -> (verif_r: %s)\n            ensures\n' % (c['returns'] or '_')
            for label, expr in c['ensures']:
                ann += '                /*@C:%s::closure%d.%s@*/ %s,\n' % (spec.id, n, label, expr)
            pos, expr_span = cl_pos[n]
            if expr_span is None:
                inserts.append((pos, 0, ann + '            '))
            else:
                inserts.append((pos, 0, ann + '            { '))
                inserts.append((expr_span[1], 0, ' }'))
    order = 1
    for anchor, text in spec.ghosts:
        pos = _find_anchor(body, loops, anchor)
        inserts.append((pos, order, '\n        ' + text.replace('\n', '\n        ') + '\n        '))
        order += 1
    # apply: replacements and inserts from the end; inserts inside a replaced range are dropped
    ops = [(s, 0, ('rep', e, t)) for s, e, t in replaced] + [(p, o, ('ins', None, t)) for p, o, t in inserts]
    ops.sort(key=lambda x: (x[0], x[1]), reverse=True)
    for pos, _, (kind, e, t) in ops:
        if kind == 'ins':
            if any(s < pos < e2 for s, e2, _ in replaced):
                continue
            body = body[:pos] + t + body[pos:]
        else:
            body = body[:pos] + t + body[e:]
    return body, len(loops)


def split_match_arms(text, m, brace_open):
    """Arms of the match whose body brace opens at brace_open: list of (pat_start, arrow, body_start, body_end)."""
    close = match_close(m, brace_open)
    arms = []
    k = brace_open + 1
    while k < close:
        while k < close and m[k] in ' \t\r\n,':
            k += 1
        if k >= close:
            break
        ps = k
        depth = 0
        while k < close:
            ch = m[k]
            if ch in '([{':
                depth += 1
            elif ch in ')]}':
                depth -= 1
            elif ch == '=' and m[k + 1] == '>' and depth == 0:
                break
            k += 1
        arrow = k
        k += 2
        while k < close and m[k] in ' \t\r\n':
            k += 1
        bs = k
        if m[k] == '{':
            be = match_close(m, k) + 1
            k = be
        else:
            depth = 0
            while k < close:
                ch = m[k]
                if ch in '([{':
                    depth += 1
                elif ch in ')]}':
                    depth -= 1
                elif ch == ',' and depth == 0:
                    break
                k += 1
            be = k
        arms.append((ps, arrow, bs, be))
    return arms


def _abstract_arms(text, n, rx, repl, sid):
    """Rule A3: in the n-th `match` of the item, the body of every arm whose pattern or body matches `rx`
    is replaced by `repl` (an opaque call): what such an arm returns is not modelled."""
    m, _ = mask(text)
    ms = [mo for mo in re.finditer(r'\bmatch\b', m)]
    if n >= len(ms):
        raise UnitError('lost anchor: %s match %d' % (sid, n))
    k = ms[n].end()
    depth = 0
    while k < len(m) and not (m[k] == '{' and depth == 0):
        if m[k] in '([':
            depth += 1
        elif m[k] in ')]':
            depth -= 1
        k += 1
    arms = split_match_arms(text, m, k)
    cnt = 0
    for ps, arrow, bs, be in reversed(arms):
        arm_text = text[ps:be]
        if re.search(rx, arm_text):
            text = text[:bs] + '/*@A3 arm abstracted@*/ ' + repl + (',' if text[bs] == '{' else '') + text[be:]
            cnt += 1
    if cnt == 0:
        raise UnitError('lost anchor: %s abstract_arms matched no arm' % sid)
    return text, cnt


def _abstract_arg(text, callee, idx, repl, sid):
    """Rule A2: the idx-th argument of the (single) call `callee(...)` is replaced by `repl`."""
    m, _ = mask(text)
    hits = [mo for mo in re.finditer(r'(?<![\w:])' + re.escape(callee) + r'\s*\(', m)]
    if len(hits) != 1:
        raise UnitError('lost anchor: %d calls of %s in %s' % (len(hits), callee, sid))
    op = hits[0].end() - 1
    cl = match_close(m, op)
    args = []
    depth = 0
    start = op + 1
    k = op + 1
    while k < cl:
        ch = m[k]
        if ch in '([{':
            depth += 1
        elif ch in ')]}':
            depth -= 1
        elif ch == ',' and depth == 0:
            args.append((start, k))
            start = k + 1
        k += 1
    if m[start:cl].strip():
        args.append((start, cl))
    if idx >= len(args):
        raise UnitError('lost anchor: call of %s in %s has %d arguments' % (callee, sid, len(args)))
    a, b = args[idx]
    if repl.strip() == '@iter_seq':
        # rule A6: an iterator pipeline over u32 items is replaced by an opaque iterator that carries the
        # SEQUENCE of its items as ghost state, computed mechanically from the pipeline text
        try:
            seq = iter_pipeline_seq(m[a:b])
        except ValueError as e:
            raise UnitError('lost anchor: iterator argument of %s in %s is outside the pipeline subset (%s)' % (callee, sid, e))
        # the sequence is bound to a ghost name in front of the statement that holds the call, so that ghost proofs
        # of the template can talk about it
        st = hits[0].start()
        while st > 0 and m[st - 1] not in ';{}':
            st -= 1
        return (text[:st] + '\n/*@A6 iterator pipeline as a sequence@*/ let ghost verif_iter_seq: Seq<u32> = ' + seq + ';\n' + text[st:a]
                + ' crate::verif_std::VerifU32Iter::of(Ghost(verif_iter_seq))' + text[b:])
    return text[:a] + '\n/*@A2 argument abstracted@*/ ' + repl + text[b:]


def iter_pipeline_seq(src):
    """Sequence of the items of an iterator pipeline, as a Verus spec expression. Subset:
         E := std::iter::empty() | std::iter::once(X) | [&X, ..] | PLACE.iter() | E.chain(E) | E.map(|p| p.FIELD..)
       (PLACE / X: paths of identifiers and field accesses). Anything else raises ValueError."""
    t = re.sub(r'\s+', '', src)
    pos = [0]

    def peek(lit):
        return t.startswith(lit, pos[0])

    def eat(lit):
        if not peek(lit):
            raise ValueError('expected %r at %r' % (lit, t[pos[0]:pos[0] + 20]))
        pos[0] += len(lit)

    def path():
        mo = re.compile(r'&?(?:[A-Za-z_]\w*)(?:\.[A-Za-z_0-9]\w*)*').match(t, pos[0])
        if not mo:
            raise ValueError('expected a place at %r' % t[pos[0]:pos[0] + 20])
        txt = mo.group(0)
        # do not swallow a trailing method name
        while True:
            rest = t[mo.start() + len(txt):]
            if rest.startswith('('):
                txt = txt[:txt.rindex('.')]
            else:
                break
        pos[0] = mo.start() + len(txt)
        return txt.lstrip('&')

    def primary():
        if peek('std::iter::empty()'):
            eat('std::iter::empty()')
            return 'Seq::<u32>::empty()', True
        if peek('std::iter::once('):
            eat('std::iter::once(')
            x = path()
            eat(')')
            return 'seq![%s]' % x, True
        if peek('['):
            eat('[')
            xs = []
            while not peek(']'):
                xs.append(path())
                if peek(','):
                    eat(',')
            eat(']')
            return 'seq![%s]' % ', '.join(xs), True
        x = path()
        eat('.iter()')
        return '%s@' % x, True

    def expr():
        e, _ = primary()
        while pos[0] < len(t) and peek('.'):
            if peek('.chain('):
                eat('.chain(')
                r = expr()
                eat(')')
                e = '(%s + %s)' % (e, r)
            elif peek('.map(|'):
                eat('.map(|')
                mo = re.compile(r'([A-Za-z_]\w*)\|').match(t, pos[0])
                if not mo:
                    raise ValueError('closure parameter')
                pname = mo.group(1)
                pos[0] = mo.end()
                mo = re.compile(re.escape(pname) + r'((?:\.[A-Za-z_0-9]\w*)+)\)').match(t, pos[0])
                if not mo:
                    raise ValueError('closure body is not a field access')
                pos[0] = mo.end()
                e = 'Seq::new((%s).len(), |verif_i: int| (%s)[verif_i]%s)' % (e, e, mo.group(1))
            else:
                raise ValueError('adaptor %r' % t[pos[0]:pos[0] + 16])
        return e

    e = expr()
    if pos[0] != len(t):
        raise ValueError('trailing %r' % t[pos[0]:pos[0] + 20])
    return e


def process_item(repo, spec, mutations=None, force_false=False):
    """Extract + rewrite + inject. Returns (text, meta)."""
    path = os.path.join(repo, spec.path)
    try:
        src = open(path).read()
    except OSError as e:
        raise UnitError('lost anchor: cannot read %s' % spec.path)
    try:
        item = cut_item(spec.path, src, spec.selector)
    except ScanError as e:
        raise UnitError(str(e))
    text = item.text
    sha = hashlib.sha256(text.encode()).hexdigest()
    nlines = text.count('\n') + 1
    mutated = False
    for mu in (mutations or []):
        if mu['from'] not in text:
            raise UnitError('canary %s: mutation source text not found in %s' % (mu['id'], spec.id))
        text = text.replace(mu['from'], mu['to'], 1)
        mutated = True
    text, log = rewrite.apply_all(text, spec.rewrites)
    # R12c: an item without a visibility qualifier becomes `pub` (not inside trait impls, where it is illegal)
    if not re.match(r'^impl\s+\S.*\sfor\s', spec.selector):
        mvis = re.match(r'^(\s*(?:#\[[^\]]*\]\s*)*)(fn|struct|enum|const|static|type|unsafe fn)\b', text)
        if mvis:
            text = text[:mvis.end(1)] + 'pub ' + text[mvis.end(1):]
            log['R12c'] = 1
    for a, b, guard in spec.subs:
        text2, c = re.subn(a, b, text)
        if c == 0:
            if guard is not None and not re.search(guard, text):
                log['per-item-gone:' + a] = 1
                continue
            raise UnitError('lost anchor: per-item rewrite %r did not match in %s' % (a, spec.id))
        text = text2
        log['per-item:' + a] = c
    for n, rx, repl in spec.abstract_arms:
        text, c = _abstract_arms(text, n, rx, repl, spec.id)
        log['A3:match%d' % n] = c
    for callee, idx, repl in spec.abstract_args:
        text = _abstract_arg(text, callee, idx, repl, spec.id)
        log['A2:%s#%d' % (callee, idx)] = 1
    meta = {'id': spec.id, 'file': spec.path, 'selector': spec.selector, 'kind': item.kind,
            'line_start': item.line, 'line_end': item.line + nlines - 1, 'sha256': sha,
            'rewrites': log, 'external_body': spec.external_body, 'from_other_unit': spec.from_other_unit, 'nloops': 0,
            'requires': [l for l, _ in spec.requires], 'ensures': [l for l, _ in spec.ensures],
            'invariants': ['loop%d.%s' % (n, l) for n, lp in spec.loops.items()
                           for l, _ in (lp['invariants'] + lp.get('inv_except_break', []) + lp.get('ensures', []))]}
    if item.kind != 'fn':
        out = text
    else:
        try:
            header, body = split_fn(text)
        except ScanError as e:
            raise UnitError('%s: %s' % (spec.id, e))
        if force_false:
            spec = _copy_with_false(spec)
        header = _inject_header(header.rstrip(), spec, None)
        if spec.external_body:
            out = '#[verifier::external_body]\n' + header + '{ unimplemented!() }'
            if spec.abstract_loops or spec.ghosts or spec.loops:
                raise UnitError('%s: external_body with body annotations' % spec.id)
        else:
            try:
                body, nl = _inject_body(body, spec)
            except ScanError as e:
                raise UnitError('%s: %s' % (spec.id, e))
            meta['nloops'] = nl
            if spec.abstract_loops:
                log['A1'] = len(spec.abstract_loops)
            out = header + body
    for a in spec.attrs:
        out = a + '\n' + out
    out = '/*@I:%s@*/ ' % spec.id + out.lstrip() + ' /*@E:%s@*/' % spec.id
    return out, meta


def _copy_with_false(spec):
    import copy
    s = copy.deepcopy(spec)
    s.ensures = [['vacuity_canary', 'false']]
    return s


def _auto_consts(repo, spec, text, known):
    """Constants of the item's own source file that the item mentions and the unit does not define yet:
    they are extracted too (a changed function may start using a constant declared next to it)."""
    extra = []
    try:
        src = open(os.path.join(repo, spec.path)).read()
    except OSError:
        return extra
    m, _ = mask(text)
    for name in sorted(set(re.findall(r'\b[A-Z][A-Z0-9_]{2,}\b', m))):
        if name in known:
            continue
        try:
            it = cut_item(spec.path, src, 'const ' + name)
        except ScanError:
            continue
        known.add(name)
        t, _ = rewrite.apply_all(it.text, [])
        if not t.lstrip().startswith('pub'):
            t = 'pub ' + t.lstrip()
        extra.append((name, t, it.line))
    return extra


def assemble(template, repo, specs_dir, canary=None):
    """Returns (text, meta). canary: None or a canary dict from parse_template."""
    parts, canaries = parse_template(template, specs_dir)
    out = []
    items = []
    ids = set()
    known_consts = set()
    for kind, val in parts:
        if kind == 'text':
            known_consts.update(re.findall(r'\bconst\s+([A-Z][A-Z0-9_]*)\b', val))
        elif re.match(r'^(const|static)\s+(\w+)', val.selector.split('::')[-1].strip()):
            known_consts.add(re.match(r'^(const|static)\s+(\w+)', val.selector.split('::')[-1].strip()).group(2))
    for kind, val in parts:
        if kind == 'text':
            out.append(val)
            continue
        spec = val
        if spec.id in ids:
            raise UnitError('duplicate item id %s' % spec.id)
        ids.add(spec.id)
        muts = None
        force_false = False
        if canary and canary['item'] == spec.id:
            if canary['kind'] == 'mutation':
                muts = [canary]
            else:
                force_false = True
        try:
            text, meta = process_item(repo, spec, muts, force_false)
        except UnitError as e:
            raise UnitError('%s (%s): %s' % (spec.id, spec.tmpl, e))
        meta['template'] = spec.tmpl
        items.append(meta)
        ind = getattr(spec, 'indent', '')
        if meta['kind'] == 'fn' and not spec.from_other_unit:
            for cname, ctext, cline in _auto_consts(repo, spec, text, known_consts):
                out.append(ind + '/*@auto-extracted const %s (%s:%d)@*/ ' % (cname, spec.path, cline) + ctext)
                meta.setdefault('auto_consts', []).append(cname)
        out.append('\n'.join(ind + l if l.strip() else l for l in text.split('\n')))
    if canary and canary['item'] not in ids:
        raise UnitError('canary %s names unknown item %s' % (canary['id'], canary['item']))
    text = '\n'.join(out)
    # line map from markers
    clause_lines = {}
    item_ranges = {}
    for ln, line in enumerate(text.split('\n'), 1):
        for mo in re.finditer(r'/\*@([CIE]):(.*?)@\*/', line):
            k, v = mo.group(1), mo.group(2)
            if k == 'C':
                clause_lines[ln] = v
            elif k == 'I':
                item_ranges[v] = [ln, None]
            elif k == 'E':
                item_ranges[v][1] = ln
    meta = {'items': items, 'clause_lines': clause_lines, 'item_ranges': item_ranges, 'canaries': canaries}
    return text, meta
